import IronCalc.Formula.RoundTrip
/-
  Round trip, part 2: argument lists, LAMBDA, and the mutual induction over Node / Args.
-/
namespace IronCalc.Formula

variable (iv : Nat → Bool)

def ClaimA (T : Table) (as : Args) : Prop :=
  as.notSingleEmpty = true → ∀ rest, RPA iv (prArgs T as ++ Tok.rp :: rest) (as, Tok.rp :: rest)

def ClaimT (T : Table) (as : Args) : Prop :=
  ∀ rest, RPT iv (prTail T as ++ Tok.rp :: rest) (as, Tok.rp :: rest)

theorem tail_closing (T : Table) (r : Args) (rest : List Tok) :
    NoTighter 0 (prTail T r ++ Tok.rp :: rest) := by
  cases r with
  | nil => simp only [prTail, List.nil_append]; exact NoTighter_closing rfl
  | consE r2 => simp only [prTail, List.cons_append]; exact NoTighter_closing rfl
  | consN n r2 => simp only [prTail, List.cons_append]; exact NoTighter_closing rfl

theorem head_not_closing {ts : List Tok} (h : headIs startTok ts) (rest : List Tok) :
    (∀ r0, ts ++ rest ≠ Tok.rp :: r0) ∧ (∀ r0, ts ++ rest ≠ Tok.sep :: r0) ∧
      (∀ r0, ts ++ rest ≠ Tok.lbk :: r0) := by
  obtain ⟨t, r, rfl, ht⟩ := h
  refine ⟨?_, ?_, ?_⟩ <;> intro r0 hr <;> simp at hr <;> obtain ⟨rfl, _⟩ := hr <;> simp [startTok] at ht

theorem claimT_nil (T : Table) : ClaimT iv T Args.nil := by
  intro rest
  simp only [prTail, List.nil_append]
  exact Ev_const (fun f => PT_stop iv f _ (fun r0 hr => by simp at hr))

theorem claimT_consE {T : Table} (r : Args) (ih : ClaimT iv T r) : ClaimT iv T (Args.consE r) := by
  intro rest
  cases r with
  | nil =>
    simp only [prTail, List.cons_append, List.nil_append]
    exact Ev_const (fun f => PT_seprp iv f rest)
  | consE r2 =>
    have := ih rest
    simp only [prTail, List.cons_append] at this ⊢
    exact Ev_map1 (g := fun f => PT iv f (Tok.sep :: Tok.sep :: (prTail T r2 ++ Tok.rp :: rest)))
      (h1 := fun f => PT iv f (Tok.sep :: (prTail T r2 ++ Tok.rp :: rest)))
      (fun f e1 => PT_sepsep iv e1) this
  | consN n r2 =>
    have := ih rest
    simp only [prTail, List.cons_append] at this ⊢
    exact Ev_map1 (g := fun f => PT iv f (Tok.sep :: Tok.sep :: (pr T n ++ prTail T r2 ++ Tok.rp :: rest)))
      (h1 := fun f => PT iv f (Tok.sep :: (pr T n ++ prTail T r2 ++ Tok.rp :: rest)))
      (fun f e1 => PT_sepsep iv e1) this

theorem claimT_consN {T : Table} (n : Node) (r : Args) (ihn : Claim iv T n) (ih : ClaimT iv T r) :
    ClaimT iv T (Args.consN n r) := by
  intro rest
  have e : prTail T (Args.consN n r) ++ Tok.rp :: rest =
      Tok.sep :: (pr T n ++ (prTail T r ++ Tok.rp :: rest)) := by simp [prTail]
  rw [e]
  obtain ⟨h1, h2, _⟩ := head_not_closing (pr_head T n) (prTail T r ++ Tok.rp :: rest)
  have h3 := parse0 iv ihn (prTail T r ++ Tok.rp :: rest) (tail_closing T r rest)
  exact Ev_map2 (g := fun f => PT iv f (Tok.sep :: (pr T n ++ (prTail T r ++ Tok.rp :: rest))))
    (h1 := fun f => P iv f 0 (pr T n ++ (prTail T r ++ Tok.rp :: rest)))
    (h2 := fun f => PT iv f (prTail T r ++ Tok.rp :: rest))
    (fun f e1 e2 => PT_expr iv h1 h2 e1 e2) h3 (ih rest)

theorem claimA_nil (T : Table) : ClaimA iv T Args.nil := by
  intro _ rest
  simp only [prArgs, List.nil_append]
  exact Ev_const (fun f => PA_rp iv f rest)

theorem claimA_consE {T : Table} (r : Args) (ih : ClaimT iv T r) : ClaimA iv T (Args.consE r) := by
  intro hne rest
  cases r with
  | nil => simp [Args.notSingleEmpty] at hne
  | consE r2 =>
    have := ih rest
    simp only [prArgs, prTail, List.cons_append] at this ⊢
    exact Ev_map1 (g := fun f => PA iv f (Tok.sep :: (prTail T r2 ++ Tok.rp :: rest)))
      (h1 := fun f => PT iv f (Tok.sep :: (prTail T r2 ++ Tok.rp :: rest)))
      (fun f e1 => PA_sep iv e1) this
  | consN n r2 =>
    have := ih rest
    simp only [prArgs, prTail, List.cons_append] at this ⊢
    exact Ev_map1 (g := fun f => PA iv f (Tok.sep :: (pr T n ++ prTail T r2 ++ Tok.rp :: rest)))
      (h1 := fun f => PT iv f (Tok.sep :: (pr T n ++ prTail T r2 ++ Tok.rp :: rest)))
      (fun f e1 => PA_sep iv e1) this

theorem claimA_consN {T : Table} (n : Node) (r : Args) (ihn : Claim iv T n) (ih : ClaimT iv T r) :
    ClaimA iv T (Args.consN n r) := by
  intro _ rest
  have e : prArgs T (Args.consN n r) ++ Tok.rp :: rest =
      pr T n ++ (prTail T r ++ Tok.rp :: rest) := by simp [prArgs]
  rw [e]
  obtain ⟨h1, h2, _⟩ := head_not_closing (pr_head T n) (prTail T r ++ Tok.rp :: rest)
  have h3 := parse0 iv ihn (prTail T r ++ Tok.rp :: rest) (tail_closing T r rest)
  exact Ev_map2 (g := fun f => PA iv f (pr T n ++ (prTail T r ++ Tok.rp :: rest)))
    (h1 := fun f => P iv f 0 (pr T n ++ (prTail T r ++ Tok.rp :: rest)))
    (h2 := fun f => PT iv f (prTail T r ++ Tok.rp :: rest))
    (fun f e1 e2 => PA_expr iv h1 h2 e1 e2) h3 (ih rest)

/-- descending from the primary level for a token list that starts with an identifier -/
theorem descend_ident {x : Nat} {ts : List Tok} {L : Nat} {a : Node} {rest : List Tok}
    {res : Node × List Tok} (h8 : R iv 8 (Tok.ident x :: ts) (a, rest))
    (hk : Chain iv 8 L a rest res) : R iv L (Tok.ident x :: ts) res := by
  refine descend iv (Nat.le_refl 8) h8 hk (fun _ _ => ?_) (fun _ _ => ?_)
  · constructor <;> intro r hr <;> simp at hr
  · intro r hr; simp at hr

theorem claim_call {T : Table} (x : Nat) (as : Args) (hx : x ≠ 0)
    (hA : ∀ rest, RPA iv (prArgs T as ++ Tok.rp :: rest) (as, Tok.rp :: rest)) :
    Claim iv T (Node.call x as) := by
  intro L _ rest res _ hk
  simp only [Node.kind, Kind.cl] at hk
  have e : pr T (Node.call x as) ++ rest = Tok.ident x :: Tok.lp :: (prArgs T as ++ Tok.rp :: rest) := by
    simp [pr]
  rw [e]
  have h8 : R iv 8 (Tok.ident x :: Tok.lp :: (prArgs T as ++ Tok.rp :: rest)) (Node.call x as, rest) :=
    Ev_map1 (g := fun f => P iv f 8 (Tok.ident x :: Tok.lp :: (prArgs T as ++ Tok.rp :: rest)))
      (h1 := fun f => PA iv f (prArgs T as ++ Tok.rp :: rest))
      (fun f e1 => P_8call iv (Nat.le_refl 8) hx e1) (hA rest)
  exact descend_ident iv h8 hk

/-- the parameter items of LAMBDA -/
theorem plam_run (T : Table) (ps : List (Nat × Bool)) :
    ∀ (acc : List (Nat × Bool)) (ts : List Tok) (res : Node × List Tok),
      (ps.all (fun p => iv p.1) = true) → RPLam iv (acc ++ ps) ts res →
      RPLam iv acc (prParams ps ++ ts) res := by
  induction ps with
  | nil => intro acc ts res _ h; simpa [prParams] using h
  | cons p ps ih =>
    intro acc ts res hps h
    obtain ⟨x, br⟩ := p
    simp only [List.all_cons, Bool.and_eq_true] at hps
    obtain ⟨hx, hps⟩ := hps
    have hrec : RPLam iv (acc ++ [(x, br)]) (prParams ps ++ ts) res :=
      ih (acc ++ [(x, br)]) ts res hps (by simpa using h)
    have hitem : RPLamItem iv acc br (Node.name x) (Tok.sep :: (prParams ps ++ ts)) res :=
      Ev_step1 (g := fun f => PLamItem iv f acc br (Node.name x) (Tok.sep :: (prParams ps ++ ts)))
        (h := fun f => PLam iv f (acc ++ [(x, br)]) (prParams ps ++ ts))
        (fun f => PLamItem_param iv hx) hrec
    cases br with
    | false =>
      have h0 : R iv 0 (Tok.ident x :: Tok.sep :: (prParams ps ++ ts)) (Node.name x, Tok.sep :: (prParams ps ++ ts)) := by
        have := parse0 iv (claim_name iv T x) (Tok.sep :: (prParams ps ++ ts)) (NoTighter_closing rfl)
        simpa [pr] using this
      simp only [prParams, List.cons_append]
      exact Ev_step2 (g := fun f => PLam iv f acc (Tok.ident x :: Tok.sep :: (prParams ps ++ ts)))
        (h1 := fun f => P iv f 0 (Tok.ident x :: Tok.sep :: (prParams ps ++ ts)))
        (h2 := fun f => PLamItem iv f acc false (Node.name x) (Tok.sep :: (prParams ps ++ ts)))
        (fun f e1 => PLam_plain iv (fun r0 hr => by simp at hr) e1) h0 hitem
    | true =>
      have h0 : R iv 0 (Tok.ident x :: Tok.rbk :: Tok.sep :: (prParams ps ++ ts))
          (Node.name x, Tok.rbk :: Tok.sep :: (prParams ps ++ ts)) := by
        have := parse0 iv (claim_name iv T x) (Tok.rbk :: Tok.sep :: (prParams ps ++ ts)) (NoTighter_closing rfl)
        simpa [pr] using this
      simp only [prParams, List.cons_append]
      exact Ev_step2 (g := fun f => PLam iv f acc (Tok.lbk :: Tok.ident x :: Tok.rbk :: Tok.sep :: (prParams ps ++ ts)))
        (h1 := fun f => P iv f 0 (Tok.ident x :: Tok.rbk :: Tok.sep :: (prParams ps ++ ts)))
        (h2 := fun f => PLamItem iv f acc true (Node.name x) (Tok.sep :: (prParams ps ++ ts)))
        (fun f e1 => PLam_opt iv e1) h0 hitem

theorem claim_lam {T : Table} (ps : List (Nat × Bool)) (body : Node)
    (hps : ps.all (fun p => iv p.1) = true) (ihb : Claim iv T body) :
    Claim iv T (Node.lam ps body) := by
  intro L _ rest res hnt hk
  simp only [Node.kind, Kind.cl] at hk hnt
  have hlp : ∀ r', rest ≠ Tok.lp :: r' := by
    intro r' hr
    have := hnt _ _ hr 8 rfl
    omega
  have e : pr T (Node.lam ps body) ++ rest =
      Tok.ident 0 :: Tok.lp :: (prParams ps ++ (pr T body ++ Tok.rp :: rest)) := by
    simp [pr]
  rw [e]
  obtain ⟨_, _, hlbk⟩ := head_not_closing (pr_head T body) (Tok.rp :: rest)
  have h0 := parse0 iv ihb (Tok.rp :: rest) (NoTighter_closing rfl)
  have hitem : RPLamItem iv ps false body (Tok.rp :: rest) (Node.lam ps body, rest) :=
    Ev_const (fun f => PLamItem_body iv f ps false body rest hlp)
  have hbody : RPLam iv ([] ++ ps) (pr T body ++ Tok.rp :: rest) (Node.lam ps body, rest) := by
    simp only [List.nil_append]
    exact Ev_step2 (g := fun f => PLam iv f ps (pr T body ++ Tok.rp :: rest))
      (h1 := fun f => P iv f 0 (pr T body ++ Tok.rp :: rest))
      (h2 := fun f => PLamItem iv f ps false body (Tok.rp :: rest))
      (fun f e1 => PLam_plain iv hlbk e1) h0 hitem
  have hl := plam_run iv T ps [] _ _ hps hbody
  have h8 : R iv 8 (Tok.ident 0 :: Tok.lp :: (prParams ps ++ (pr T body ++ Tok.rp :: rest)))
      (Node.lam ps body, rest) :=
    Ev_step1 (g := fun f => P iv f 8 (Tok.ident 0 :: Tok.lp :: (prParams ps ++ (pr T body ++ Tok.rp :: rest))))
      (h := fun f => PLam iv f [] (prParams ps ++ (pr T body ++ Tok.rp :: rest)))
      (fun f => P_8lam iv f 8 _ (Nat.le_refl 8)) hl
  exact descend_ident iv h8 hk

theorem claim_lamcall {T : Table} (ps : List (Nat × Bool)) (body : Node) (as : Args)
    (hps : ps.all (fun p => iv p.1) = true) (ihb : Claim iv T body)
    (hA : ∀ rest, RPA iv (prArgs T as ++ Tok.rp :: rest) (as, Tok.rp :: rest)) :
    Claim iv T (Node.lamcall ps body as) := by
  intro L _ rest res _ hk
  simp only [Node.kind, Kind.cl] at hk
  have e : pr T (Node.lamcall ps body as) ++ rest =
      Tok.ident 0 :: Tok.lp :: (prParams ps ++ (pr T body ++
        Tok.rp :: Tok.lp :: (prArgs T as ++ Tok.rp :: rest))) := by
    simp [pr]
  rw [e]
  obtain ⟨_, _, hlbk⟩ := head_not_closing (pr_head T body)
    (Tok.rp :: Tok.lp :: (prArgs T as ++ Tok.rp :: rest))
  have h0 := parse0 iv ihb (Tok.rp :: Tok.lp :: (prArgs T as ++ Tok.rp :: rest)) (NoTighter_closing rfl)
  have hitem : RPLamItem iv ps false body (Tok.rp :: Tok.lp :: (prArgs T as ++ Tok.rp :: rest))
      (Node.lamcall ps body as, rest) :=
    Ev_map1 (g := fun f => PLamItem iv f ps false body (Tok.rp :: Tok.lp :: (prArgs T as ++ Tok.rp :: rest)))
      (h1 := fun f => PA iv f (prArgs T as ++ Tok.rp :: rest))
      (fun f e1 => PLamItem_call iv e1) (hA rest)
  have hbody : RPLam iv ([] ++ ps) (pr T body ++ Tok.rp :: Tok.lp :: (prArgs T as ++ Tok.rp :: rest))
      (Node.lamcall ps body as, rest) := by
    simp only [List.nil_append]
    exact Ev_step2 (g := fun f => PLam iv f ps (pr T body ++ Tok.rp :: Tok.lp :: (prArgs T as ++ Tok.rp :: rest)))
      (h1 := fun f => P iv f 0 (pr T body ++ Tok.rp :: Tok.lp :: (prArgs T as ++ Tok.rp :: rest)))
      (h2 := fun f => PLamItem iv f ps false body (Tok.rp :: Tok.lp :: (prArgs T as ++ Tok.rp :: rest)))
      (fun f e1 => PLam_plain iv hlbk e1) h0 hitem
  have hl := plam_run iv T ps [] _ _ hps hbody
  have h8 : R iv 8 (Tok.ident 0 :: Tok.lp :: (prParams ps ++ (pr T body ++
        Tok.rp :: Tok.lp :: (prArgs T as ++ Tok.rp :: rest)))) (Node.lamcall ps body as, rest) :=
    Ev_step1 (g := fun f => P iv f 8 (Tok.ident 0 :: Tok.lp :: (prParams ps ++ (pr T body ++
        Tok.rp :: Tok.lp :: (prArgs T as ++ Tok.rp :: rest)))))
      (h := fun f => PLam iv f [] (prParams ps ++ (pr T body ++
        Tok.rp :: Tok.lp :: (prArgs T as ++ Tok.rp :: rest))))
      (fun f => P_8lam iv f 8 _ (Nat.le_refl 8)) hl
  exact descend_ident iv h8 hk

/-! ### the mutual induction -/

mutual
theorem claimN {T : Table} (hT : TableOK T) : ∀ e : Node, e.wf iv = true → Claim iv T e
  | .lit c a, _ => claim_lit iv T c a
  | .name x, _ => claim_name iv T x
  | .bin o a b, h => by
      simp only [Node.wf, Bool.and_eq_true] at h
      exact claim_bin iv hT o a b (claimN hT a h.1) (claimN hT b h.2)
  | .neg a, h => by
      simp only [Node.wf] at h
      exact claim_neg iv hT a (claimN hT a h)
  | .pct a, h => by
      simp only [Node.wf] at h
      exact claim_pct iv hT a (claimN hT a h)
  | .rng a b, h => by
      simp only [Node.wf, Bool.and_eq_true] at h
      exact claim_rng iv hT a b (claimN hT a h.1) (claimN hT b h.2)
  | .at a, h => by
      simp only [Node.wf] at h
      exact claim_at iv hT a (claimN hT a h)
  | .spill a, h => by
      simp only [Node.wf] at h
      exact claim_spill iv hT a (claimN hT a h)
  | .call x as, h => by
      simp only [Node.wf, Bool.and_eq_true, bne_iff_ne, ne_eq] at h
      exact claim_call iv x as h.1.1 (claimA hT as h.1.2 h.2)
  | .lam ps body, h => by
      simp only [Node.wf, Bool.and_eq_true] at h
      exact claim_lam iv ps body h.1 (claimN hT body h.2)
  | .lamcall ps body as, h => by
      simp only [Node.wf, Bool.and_eq_true] at h
      exact claim_lamcall iv ps body as h.1.1.1 (claimN hT body h.1.1.2) (claimA hT as h.1.2 h.2)
theorem claimA {T : Table} (hT : TableOK T) : ∀ as : Args, as.wf iv = true → ClaimA iv T as
  | .nil, _ => claimA_nil iv T
  | .consE r, h => by
      simp only [Args.wf] at h
      exact claimA_consE iv r (claimT hT r h)
  | .consN n r, h => by
      simp only [Args.wf, Bool.and_eq_true] at h
      exact claimA_consN iv n r (claimN hT n h.1) (claimT hT r h.2)
theorem claimT {T : Table} (hT : TableOK T) : ∀ as : Args, as.wf iv = true → ClaimT iv T as
  | .nil, _ => claimT_nil iv T
  | .consE r, h => by
      simp only [Args.wf] at h
      exact claimT_consE iv r (claimT hT r h)
  | .consN n r, h => by
      simp only [Args.wf, Bool.and_eq_true] at h
      exact claimT_consN iv n r (claimN hT n h.1) (claimT hT r h.2)
end

/-- the round trip at the top level: the whole printed text is consumed and yields the tree -/
theorem roundtrip_main {T : Table} (hT : TableOK T) (e : Node) (hwf : e.wf iv = true) :
    ∃ f0, ∀ f, f0 ≤ f → P iv f 0 (pr T e) = some (e, []) := by
  have h := parse0 iv (claimN iv hT e hwf) [] NoTighter_nil
  simpa [R, Ev] using h

end IronCalc.Formula
