import IronCalc.Formula.Syntax
/-
  M-Formula, part 2: the recursive-descent parser, by fuel.
  models base/src/expressions/parser/mod.rs:
    parse_expr (level 0, Compare loop) · parse_concat (1, `&`) · parse_term (2, `+ -`) ·
    parse_factor (3, `* /`) · parse_prod (4, `^`) · parse_power (5: sign* parse_range, a negative
    sign wraps BEFORE the `%*` loop) · parse_range (6: parse_implicit (':' parse_primary)?) ·
    parse_implicit (7: '@' parse_primary | parse_primary '#'?) · parse_primary (8) ·
    parse_function_args (`PA`/`PT`) · lambda.rs::parse_lambda (`PLam`).
  `none` = ParseErrorKind (or out of fuel).  `isVar x`: the identifier `x`, parsed on its own,
  yields a NamedVariableKind (not a defined name / table / boolean) — required of LAMBDA parameters.
-/
namespace IronCalc.Formula

mutual
def P (isVar : Nat → Bool) : Nat → Nat → List Tok → Option (Node × List Tok)
  | 0, _, _ => none
  | f+1, L, ts =>
    if L ≤ 4 then
      match P isVar f (L+1) ts with
      | some (a, r) => LB isVar f L a r
      | none => none
    else if L = 5 then PS isVar f false ts
    else if L = 6 then
      match P isVar f 7 ts with
      | some (a, Tok.colon :: r) =>
          (match P isVar f 8 r with
           | some (b, r') => some (Node.rng a b, r')
           | none => none)
      | some (a, r) => some (a, r)
      | none => none
    else if L = 7 then
      match ts with
      | Tok.at :: r =>
          (match P isVar f 8 r with
           | some (a, r') => some (Node.at a, r')
           | none => none)
      | _ =>
          match P isVar f 8 ts with
          | some (a, Tok.hash :: r) => some (Node.spill a, r)
          | some (a, r) => some (a, r)
          | none => none
    else
      match ts with
      | Tok.lp :: r =>
          (match P isVar f 0 r with
           | some (a, Tok.rp :: r') => some (a, r')
           | _ => none)
      | Tok.lit c a :: r => some (Node.lit c a, r)
      | Tok.ident x :: Tok.lp :: r =>
          if x = 0 then PLam isVar f [] r
          else
            (match PA isVar f r with
             | some (args, Tok.rp :: r') => some (Node.call x args, r')
             | _ => none)
      | Tok.ident x :: r => some (Node.name x, r)
      | _ => none
/-- the left-associative loop of a binary level `l ≤ 4` -/
def LB (isVar : Nat → Bool) : Nat → Nat → Node → List Tok → Option (Node × List Tok)
  | 0, _, _, _ => none
  | f+1, l, acc, Tok.op o :: r =>
      if o.level = l then
        match P isVar f (l+1) r with
        | some (b, r') => LB isVar f l (Node.bin o acc b) r'
        | none => none
      else some (acc, Tok.op o :: r)
  | _+1, _, acc, r => some (acc, r)
/-- parse_power: the sign loop, then parse_range, the negative wrap, then the percent loop -/
def PS (isVar : Nat → Bool) : Nat → Bool → List Tok → Option (Node × List Tok)
  | 0, _, _ => none
  | f+1, ng, Tok.op .add :: r => PS isVar f ng r
  | f+1, ng, Tok.op .sub :: r => PS isVar f (!ng) r
  | f+1, ng, ts =>
      match P isVar f 6 ts with
      | some (a, r) => LP isVar f (if ng then Node.neg a else a) r
      | none => none
def LP (isVar : Nat → Bool) : Nat → Node → List Tok → Option (Node × List Tok)
  | 0, _, _ => none
  | f+1, acc, Tok.pct :: r => LP isVar f (Node.pct acc) r
  | _+1, acc, r => some (acc, r)
/-- parse_function_args, entered after the `(`; returns positioned AT the closing token -/
def PA (isVar : Nat → Bool) : Nat → List Tok → Option (Args × List Tok)
  | 0, _ => none
  | _+1, Tok.rp :: r => some (Args.nil, Tok.rp :: r)
  | f+1, Tok.sep :: r =>
      match PT isVar f (Tok.sep :: r) with
      | some (rest, r') => some (Args.consE rest, r')
      | none => none
  | f+1, ts =>
      match P isVar f 0 ts with
      | some (a, r) =>
          (match PT isVar f r with
           | some (rest, r') => some (Args.consN a rest, r')
           | none => none)
      | none => none
/-- the `while next_token == separator` loop of parse_function_args -/
def PT (isVar : Nat → Bool) : Nat → List Tok → Option (Args × List Tok)
  | 0, _ => none
  | f+1, Tok.sep :: Tok.sep :: r =>
      match PT isVar f (Tok.sep :: r) with
      | some (rest, r') => some (Args.consE rest, r')
      | none => none
  | _+1, Tok.sep :: Tok.rp :: r => some (Args.consE Args.nil, Tok.rp :: r)
  | f+1, Tok.sep :: r =>
      match P isVar f 0 r with
      | some (a, r1) =>
          (match PT isVar f r1 with
           | some (rest, r') => some (Args.consN a rest, r')
           | none => none)
      | none => none
  | _+1, ts => some (Args.nil, ts)
/-- parse_lambda's item loop, entered after `LAMBDA(`; `ps` = parameters collected so far -/
def PLam (isVar : Nat → Bool) : Nat → List (Nat × Bool) → List Tok → Option (Node × List Tok)
  | 0, _, _ => none
  | f+1, ps, Tok.lbk :: ts =>
      match P isVar f 0 ts with
      | some (e, Tok.rbk :: r2) => PLamItem isVar f ps true e r2
      | _ => none
  | f+1, ps, ts =>
      match P isVar f 0 ts with
      | some (e, r2) => PLamItem isVar f ps false e r2
      | none => none
def PLamItem (isVar : Nat → Bool) : Nat → List (Nat × Bool) → Bool → Node → List Tok → Option (Node × List Tok)
  | 0, _, _, _, _ => none
  | f+1, ps, br, Node.name x, Tok.sep :: r3 =>
      if isVar x then PLam isVar f (ps ++ [(x, br)]) r3 else none
  | _+1, _, _, _, Tok.sep :: _ => none
  | f+1, ps, _, e, Tok.rp :: Tok.lp :: r4 =>
      (match PA isVar f r4 with
       | some (args, Tok.rp :: r5) => some (Node.lamcall ps e args, r5)
       | _ => none)
  | _+1, ps, _, e, Tok.rp :: r3 => some (Node.lam ps e, r3)
  | _+1, _, _, _, _ => none
end

/-- parse a complete token list (models `Parser::parse`, plus the requirement that the whole
    text is consumed: the real parser silently ignores trailing tokens) -/
def parse (isVar : Nat → Bool) (ts : List Tok) : Option (Node × List Tok) :=
  P isVar (12 * ts.length + 30) 0 ts

end IronCalc.Formula
