import IronCalc.Eval.Store
/-
  C06 — the independent reference evaluator for the core formula language of the property:
  literals; references and ranges; + - * / ^ & %, unary minus, the six comparisons;
  IF AND OR NOT SUM MIN MAX COUNT COUNTA AVERAGE ABS ROUND LEN CONCAT ISNUMBER ISTEXT ISBLANK IFERROR.

  Written from the spreadsheet rules (coercions, empty-cell handling, error precedence — left operand
  first —, scalar/array broadcasting with the size-1 rule, cross-type ordering number < text < boolean,
  case-insensitive text comparison) and cross-read against
    base/src/model.rs::evaluate_node_in_context, base/src/arithmetic.rs, base/src/cast.rs,
    base/src/functions/util.rs::compare_values, functions/logical, mathematical.rs,
    statistical/count_and_average.rs, text/common.rs, information/mod.rs.

  Numbers are abstract (`NumOps`): the theorems hold for every instance; the driver instantiates it
  with hardware doubles.  `Cfg.andOrShortCircuit` distinguishes the reference rule (an error in ANY
  argument of AND/OR is propagated, as in Excel) from the pinned engine (stops at the first deciding
  value; finding F06a, repaired by a fix commit — the driver runs `Cfg.reference`).
-/
namespace IronCalc.Core

open IronCalc.Store (Err)

/-- the number operations the core language needs; every law in Props/C06 holds for any instance -/
structure NumOps (N : Type) where
  zero : N
  one : N
  add : N → N → N
  sub : N → N → N
  mul : N → N → N
  div : N → N → N
  pow : N → N → N
  neg : N → N
  div100 : N → N
  abs : N → N
  /-- ROUND(x, digits) -/
  round : N → N → N
  isZero : N → Bool
  /-- the comparison used by `=`, `<`, … on two numbers -/
  cmp : N → N → Ordering
  /-- `f64::min` / `f64::max` -/
  min : N → N → N
  max : N → N → N
  finite : N → Bool
  ofNat : Nat → N
  /-- text → number as a scalar operand (cast.rs::cast_number) -/
  ofText : String → Option N
  /-- text → number as an element of an array operand of an arithmetic operator, and the test used
      by COUNT on literal text (arithmetic.rs::to_f64: plain `str::parse::<f64>`) -/
  ofTextElem : String → Option N
  /-- number → text (cast.rs::cast_to_string) -/
  toText : N → String

/-- scalar values; `empty` is the value of an empty cell / omitted argument -/
inductive Val (N : Type)
  | num (n : N) | str (s : String) | bool (b : Bool) | err (e : Err) | empty
  deriving Repr, Inhabited

/-- what a node evaluates to: a scalar, a (same-sheet) range reference — carried together with the
    values of its cells, so that operators and functions never look at the sheet themselves — or an
    array -/
inductive Res (N : Type)
  | val (v : Val N)
  | rng (cells : List (List (Val N)))
  | arr (rows : List (List (Val N)))
  deriving Repr, Inhabited

inductive BinOp | add | sub | mul | div | pow | concat | eq | ne | lt | le | gt | ge
  deriving DecidableEq, Repr, Inhabited

inductive Fn
  | IF | AND | OR | NOT | SUM | MIN | MAX | COUNT | COUNTA | AVERAGE | ABS | ROUND | LEN | CONCAT
  | ISNUMBER | ISTEXT | ISBLANK | IFERROR
  deriving DecidableEq, Repr, Inhabited

mutual
  inductive Expr (N : Type)
    | num (n : N) | str (s : String) | bool (b : Bool) | err (e : Err)
    | ref (r c : Nat)
    | range (r1 c1 r2 c2 : Nat)
    | bin (op : BinOp) (l r : Expr N)
    | neg (x : Expr N)
    | pct (x : Expr N)
    | call (f : Fn) (args : Args N)
  inductive Args (N : Type)
    | nil
    | cons (a : Expr N) (rest : Args N)
end

structure Cfg where
  /-- pinned engine: AND/OR stop at the first deciding value (later errors are not seen) -/
  andOrShortCircuit : Bool

def Cfg.reference : Cfg := ⟨false⟩
def Cfg.engine : Cfg := ⟨true⟩

/-- the sheet: the value of every cell (the tie uses constant cells only) -/
abbrev Env (N : Type) := Nat → Nat → Val N

section
variable {N : Type} (O : NumOps N)

/-! ### coercions (cast.rs) -/

/-- models cast.rs::cast_to_number on a scalar -/
def toNumber : Val N → Except Err N
  | .num n => .ok n
  | .str s => match O.ofText s with | some n => .ok n | none => .error .value
  | .bool b => .ok (if b then O.one else O.zero)
  | .empty => .ok O.zero
  | .err e => .error e

/-- models arithmetic.rs::to_f64 (elements of array operands) -/
def elemToNumber : Val N → Except Err N
  | .num n => .ok n
  | .bool b => .ok (if b then O.one else O.zero)
  | .str s => match O.ofTextElem s with | some n => .ok n | none => .error .value
  | .err e => .error e
  | .empty => .ok O.zero

/-- models cast.rs::cast_to_string / array_node_to_string -/
def toText : Val N → Except Err String
  | .num n => .ok (O.toText n)
  | .str s => .ok s
  | .bool b => .ok (if b then "TRUE" else "FALSE")
  | .empty => .ok ""
  | .err e => .error e

/-- models cast.rs::cast_to_bool / logical::array_node_to_bool -/
def toBool : Val N → Except Err Bool
  | .num n => .ok (!O.isZero n)
  | .str s => if s.toLower == "true" then .ok true else if s.toLower == "false" then .ok false
              else .error .value
  | .bool b => .ok b
  | .empty => .ok false
  | .err e => .error e

/-! ### comparison (functions/util.rs::compare_values) -/

def ordToInt : Ordering → Int
  | .lt => -1 | .eq => 0 | .gt => 1

def errRank : Err → Nat
  | .null => 1 | .div => 2 | .value => 3 | .ref => 4 | .name => 5 | .num => 6 | .na => 7 | _ => 8

/-- value classes in sort order: number < text < boolean < error -/
def classOf : Val N → Nat
  | .num _ => 0 | .str _ => 1 | .bool _ => 2 | .err _ => 3 | .empty => 4

/-- text comparison is case-insensitive (upper-cased, then code-point order) -/
def cmpText (a b : String) : Ordering := compare a.toUpper b.toUpper

/-- an empty cell compares as the neutral element of the other side's class -/
def fillEmpty : Val N → Val N → Val N
  | .empty, .num _ => .num O.zero
  | .empty, .str _ => .str ""
  | .empty, .bool _ => .bool false
  | v, _ => v

/-- models compare_values on non-empty classes -/
def cmpCore : Val N → Val N → Ordering
  | .num a, .num b => O.cmp a b
  | .str a, .str b => cmpText a b
  | .bool a, .bool b => compare a b
  | .err a, .err b => compare (errRank a) (errRank b)
  | a, b => compare (classOf a) (classOf b)

/-- models compare_values (−1/0/1 as an `Ordering`) -/
def compareValues (a b : Val N) : Ordering :=
  match a, b with
  | .empty, .empty => .eq
  | .empty, .err _ => .lt     -- `(_, Error) => -1`
  | .err _, .empty => .gt     -- `(Error, _) => 1`
  | a, b => cmpCore O (fillEmpty O a b) (fillEmpty O b a)

def applyCmp (op : BinOp) (o : Ordering) : Bool :=
  match op with
  | .eq => o == .eq
  | .ne => o != .eq
  | .lt => o == .lt
  | .gt => o == .gt
  | .le => o != .gt
  | .ge => o != .lt
  | _ => false

/-! ### broadcasting (arithmetic.rs::bcast_idx) -/

def bcastIdx (len i : Nat) : Option Nat :=
  if len == 1 then some 0 else if i < len then some i else none

def dims (a : List (List (Val N))) : Nat × Nat := (a.length, (a.headD []).length)

def elemAt (a : List (List (Val N))) (i j : Nat) : Option (Val N) :=
  let (n, m) := dims a
  match bcastIdx n i, bcastIdx m j with
  | some i', some j' => (a[i']?).bind (fun row => row[j']?)
  | _, _ => none

/-- element-wise combination of two arrays with size-1 broadcasting; a position that one side
    cannot supply is `miss` -/
def zipArr (f : Val N → Val N → Val N) (miss : Val N) (a b : List (List (Val N))) : List (List (Val N)) :=
  let (n1, m1) := dims a
  let (n2, m2) := dims b
  (List.range (Nat.max n1 n2)).map fun i =>
    (List.range (Nat.max m1 m2)).map fun j =>
      match elemAt a i j, elemAt b i j with
      | some x, some y => f x y
      | _, _ => miss

def mapArr (f : Val N → Val N) (a : List (List (Val N))) : List (List (Val N)) :=
  a.map (fun row => row.map f)

/-- models Model::evaluate_range / the range arm of get_number_or_array -/
def rangeVals (env : Env N) (r1 c1 r2 c2 : Nat) : List (List (Val N)) :=
  (List.range (r2 + 1 - r1)).map fun i => (List.range (c2 + 1 - c1)).map fun j => env (r1 + i) (c1 + j)

/-! ### operators -/

def isArith : BinOp → Bool
  | .add | .sub | .mul | .div | .pow => true
  | _ => false

def isCompare : BinOp → Bool
  | .eq | .ne | .lt | .le | .gt | .ge => true
  | _ => false

/-- the arithmetic of one operator on two numbers (`/` by zero is `#DIV/0!`) -/
def arith (op : BinOp) (a b : N) : Except Err N :=
  match op with
  | .add => .ok (O.add a b)
  | .sub => .ok (O.sub a b)
  | .mul => .ok (O.mul a b)
  | .div => if O.isZero b then .error .div else .ok (O.div a b)
  | .pow => .ok (O.pow a b)
  | _ => .error .value

def exceptToVal (x : Except Err N) : Val N :=
  match x with | .ok n => .num n | .error e => .err e

/-- one element of an array arithmetic: the left error wins -/
def arithElem (op : BinOp) (x y : Val N) : Val N :=
  match elemToNumber O x, elemToNumber O y with
  | .ok a, .ok b => exceptToVal (arith O op a b)
  | .error e, _ => .err e
  | _, .error e => .err e

def concatElem (x y : Val N) : Val N :=
  match toText O x, toText O y with
  | .ok a, .ok b => .str (a ++ b)
  | .error e, _ => .err e
  | _, .error e => .err e

/-- one element of a comparison: like the other operators an error element is propagated, the left
    one first (the pinned engine ordered error elements of array operands instead; fix F06c) -/
def cmpElem (op : BinOp) (x y : Val N) : Val N :=
  match x, y with
  | .err e, _ => .err e
  | _, .err e => .err e
  | x, y => .bool (applyCmp op (compareValues O x y))

/-- a scalar operand or an array operand; ranges become arrays of their cells -/
inductive Operand (N : Type)
  | scalar (v : Val N)
  | array (a : List (List (Val N)))

def toOperand : Res N → Operand N
  | .val v => .scalar v
  | .rng cells => .array (cells)
  | .arr a => .array a

/-- the binary operators (evaluate_node_in_context + handle_arithmetic / handle_concatenate /
    handle_comparison): operands are coerced left first; an error scalar operand is returned as is -/
def evalBin (op : BinOp) (l r : Res N) : Res N :=
  if isArith op then
    -- get_number_or_array(left), then right
    let coerce : Operand N → Except Err (Operand N)
      | .scalar v => match toNumber O v with | .ok n => .ok (.scalar (.num n)) | .error e => .error e
      | .array a => .ok (.array a)
    match coerce (toOperand l) with
    | .error e => .val (.err e)
    | .ok lo =>
      match coerce (toOperand r) with
      | .error e => .val (.err e)
      | .ok ro =>
        match lo, ro with
        | .scalar x, .scalar y => .val (arithElem O op x y)
        | .scalar x, .array b => .arr (mapArr (fun y => arithElem O op x y) b)
        | .array a, .scalar y => .arr (mapArr (fun x => arithElem O op x y) a)
        | .array a, .array b => .arr (zipArr (arithElem O op) (.err .value) a b)
  else if op == .concat then
    let coerce : Operand N → Except Err (Operand N)
      | .scalar v => match toText O v with | .ok s => .ok (.scalar (.str s)) | .error e => .error e
      | .array a => .ok (.array a)
    match coerce (toOperand l) with
    | .error e => .val (.err e)
    | .ok lo =>
      match coerce (toOperand r) with
      | .error e => .val (.err e)
      | .ok ro =>
        match lo, ro with
        | .scalar x, .scalar y => .val (concatElem O x y)
        | .scalar x, .array b => .arr (mapArr (fun y => concatElem O x y) b)
        | .array a, .scalar y => .arr (mapArr (fun x => concatElem O x y) a)
        | .array a, .array b => .arr (zipArr (concatElem O) (.err .value) a b)
  else
    -- comparison: an error scalar operand is returned (left first); errors inside arrays are compared
    match toOperand l with
    | .scalar (.err e) => .val (.err e)
    | lo =>
      match toOperand r with
      | .scalar (.err e) => .val (.err e)
      | ro =>
        match lo, ro with
        | .scalar x, .scalar y => .val (cmpElem O op x y)
        | .scalar x, .array b => .arr (mapArr (fun y => cmpElem O op x y) b)
        | .array a, .scalar y => .arr (mapArr (fun x => cmpElem O op x y) a)
        | .array a, .array b => .arr (zipArr (cmpElem O op) (.err .value) a b)

/-- unary minus and percent go through `get_number`: ranges/arrays are not supported there -/
def evalUnary (f : N → N) : Res N → Res N
  | .val v => match toNumber O v with | .ok n => .val (.num (f n)) | .error e => .val (.err e)
  | _ => .val (.err .nimpl)

/-! ### functions -/

/-- an evaluated argument together with "the argument node is a plain cell reference" -/
structure Arg (N : Type) where
  isRef : Bool
  res : Res N

def flatten (a : List (List (Val N))) : List (Val N) := a.flatten

/-- first error in a list of values -/
def firstErr : List (Val N) → Option Err
  | [] => none
  | .err e :: _ => some e
  | _ :: t => firstErr t

/-- IF / IFERROR branch argument indexed with broadcasting; ragged → #N/A -/
def branchAt (b : Res N) (i j : Nat) : Val N :=
  match b with
  | .val v => v
  | .rng cells => (elemAt (cells) i j).getD (.err .na)
  | .arr a => (elemAt a i j).getD (.err .na)

def branchDims (b : Res N) : Nat × Nat :=
  match b with
  | .val _ => (1, 1)
  | .rng cells => dims cells
  | .arr a => dims a

/-- models logical/mod.rs::fn_if -/
def fnIf (args : List (Arg N)) : Res N :=
  match args with
  | [c, t] | [c, t, _] =>
    let els : Option (Res N) := match args with | [_, _, e] => some e.res | _ => none
    match c.res with
    | .val (.err e) => .val (.err e)
    | .val v =>
      match toBool O v with
      | .error e => .val (.err e)
      | .ok true => t.res
      | .ok false => match els with | some e => e | none => .val (.bool false)
    | cr =>
      let ca := match cr with | .rng cells => cells | .arr a => a | _ => []
      let (cn, cm) := dims ca
      let (tn, tm) := branchDims t.res
      let (en, em) := match els with | some e => branchDims e | none => (1, 1)
      .arr ((List.range (Nat.max (Nat.max cn tn) en)).map fun i =>
        (List.range (Nat.max (Nat.max cm tm) em)).map fun j =>
          match elemAt ca i j with
          | none => .err .na
          | some cv =>
            match toBool O cv with
            | .error e => .err e
            | .ok true => branchAt t.res i j
            | .ok false => match els with | some e => branchAt e i j | none => .bool false)
  | _ => .val (.err .error)

/-- models logical/mod.rs::fn_iferror -/
def fnIfError (args : List (Arg N)) : Res N :=
  match args with
  | [v, fb] =>
    match v.res with
    | .val (.err _) => fb.res
    | .val x => .val x
    | vr =>
      let va := match vr with | .rng cells => cells | .arr a => a | _ => []
      let (vn, vm) := dims va
      let (fn, fm) := branchDims fb.res
      .arr ((List.range (Nat.max vn fn)).map fun i =>
        (List.range (Nat.max vm fm)).map fun j =>
          match elemAt va i j with
          | some (.err _) => branchAt fb.res i j
          | some x => x
          | none => branchAt fb.res i j)
  | _ => .val (.err .error)

/-- the logical values an argument of AND/OR contributes (`none` entries are ignored values),
    or the error it raises — models and_or_xor_not.rs::logical_nary, one argument -/
def logicalItems (a : Arg N) : List (Except Err (Option Bool)) :=
  let cellItem : Val N → Except Err (Option Bool)
    | .bool b => .ok (some b)
    | .num n => .ok (some (!O.isZero n))
    | .err e => .error e
    | _ => .ok none
  match a.res with
  | .val (.bool b) => [.ok (some b)]
  | .val (.num n) => [.ok (some (!O.isZero n))]
  | .val (.err e) => [.error e]
  | .val (.str s) =>
    if a.isRef then [.ok none]
    else match toBool O (.str s) with | .ok b => [.ok (some b)] | .error _ => [.ok none]
  | .val .empty => [.ok none]   -- a reference to an empty cell is ignored (omitted arguments are not in the language)
  | .rng cells => (flatten (cells)).map cellItem
  | .arr arr => (flatten arr).map cellItem

/-- fold of AND (`isAnd`) / OR over the item stream.  `sc = true`: stop at the first deciding value
    (pinned engine); `sc = false`: every item is inspected, the first error wins (reference). -/
def logicalFold (sc : Bool) (isAnd : Bool) : List (Except Err (Option Bool)) → Option Bool → Val N
  | [], acc => match acc with | some b => .bool b | none => .err .value
  | .error e :: _, _ => .err e
  | .ok none :: rest, acc => logicalFold sc isAnd rest acc
  | .ok (some b) :: rest, acc =>
    let acc' := match acc with
      | none => b
      | some a => if isAnd then a && b else a || b
    if sc && acc' == !isAnd then .bool acc' else logicalFold sc isAnd rest (some acc')

def fnAndOr (cfg : Cfg) (isAnd : Bool) (args : List (Arg N)) : Res N :=
  if args.isEmpty then .val (.err .error)
  else .val (logicalFold cfg.andOrShortCircuit isAnd (args.flatMap (logicalItems O)) none)

/-- numbers an argument contributes to SUM (or the error it raises) — models mathematical.rs::fn_sum -/
def sumItems (a : Arg N) : List (Except Err (Option N)) :=
  let cellItem : Val N → Except Err (Option N)
    | .num n => .ok (some n)
    | .err e => .error e
    | _ => .ok none
  match a.res with
  | .rng cells => (flatten (cells)).map cellItem
  | .arr arr => (flatten arr).map cellItem
  | .val v =>
    if a.isRef then [cellItem v]      -- a reference behaves like a one-cell range
    else match toNumber O v with | .ok n => [.ok (some n)] | .error e => [.error e]

/-- numbers an argument contributes to MIN/MAX — models mathematical.rs::fn_min / fn_max -/
def minMaxItems (a : Arg N) : List (Except Err (Option N)) :=
  let cellItem : Val N → Except Err (Option N)
    | .num n => .ok (some n)
    | .err e => .error e
    | _ => .ok none
  match a.res with
  | .rng cells => (flatten (cells)).map cellItem
  | .arr arr => (flatten arr).map cellItem
  | .val v => [cellItem v]

/-- numbers an argument contributes to AVERAGE — models count_and_average.rs::for_each_value -/
def avgItems (a : Arg N) : List (Except Err (Option N)) :=
  match a.res with
  | .rng cells => (flatten (cells)).map fun
      | .num n => .ok (some n)
      | .err e => .error e
      | _ => .ok none
  | .arr arr => (flatten arr).map fun
      | .num n => .ok (some n)
      | .bool b => .ok (some (if b then O.one else O.zero))
      | .err e => .error e
      | _ => .ok none
  | .val (.num n) => [.ok (some n)]
  | .val (.bool b) => if a.isRef then [.ok none] else [.ok (some (if b then O.one else O.zero))]
  | .val (.str s) =>
    if a.isRef then [.ok none]
    else match O.ofText s with | some n => [.ok (some n)] | none => [.error .value]
  | .val (.err e) => [.error e]
  | .val .empty => [.ok none]

/-- left-to-right accumulation; the first error is the result -/
def foldItems {α : Type} (f : α → N → α) : List (Except Err (Option N)) → α → Except Err α
  | [], acc => .ok acc
  | .error e :: _, _ => .error e
  | .ok none :: rest, acc => foldItems f rest acc
  | .ok (some n) :: rest, acc => foldItems f rest (f acc n)

/-- models count_and_average.rs::fn_count, one argument -/
def countArg (a : Arg N) : Nat :=
  match a.res with
  | .val (.num _) => 1
  | .val (.bool _) => if a.isRef then 0 else 1
  | .val (.str s) => if !a.isRef && (O.ofTextElem s).isSome then 1 else 0
  | .rng cells => ((flatten (cells)).filter fun | .num _ => true | _ => false).length
  | _ => 0

/-- models count_and_average.rs::fn_counta, one argument -/
def countaArg (a : Arg N) : Nat :=
  match a.res with
  | .val .empty => 0
  | .val _ => 1
  | .rng cells => ((flatten (cells)).filter fun | .empty => false | _ => true).length
  | .arr arr => ((flatten arr).filter fun | .empty => false | _ => true).length

/-- models text/common.rs::fn_concat, one argument -/
def concatArg (a : Arg N) : Except Err String :=
  let cat (vs : List (Val N)) : Except Err String :=
    vs.foldl (fun acc v => match acc with
      | .error e => .error e
      | .ok s => match toText O v with | .ok t => .ok (s ++ t) | .error e => .error e) (.ok "")
  match a.res with
  | .val v => toText O v
  | .rng cells => cat (flatten (cells))
  | .arr _ => .error .nimpl

/-- models the `single_number_fn!` macro (ABS): scalar, or element-wise over an array -/
def fnSingleNumber (f : N → N) (args : List (Arg N)) : Res N :=
  match args with
  | [a] =>
    let elem : Val N → Val N
      | .num n => .num (f n)
      | .bool b => .num (f (if b then O.one else O.zero))
      | .str s => match O.ofText s with | some n => .num (f n) | none => .err .value
      | .err e => .err e
      | .empty => .num (f O.zero)
    match toOperand a.res with
    | .scalar v => match toNumber O v with | .ok n => .val (.num (f n)) | .error e => .val (.err e)
    | .array arr => .arr (mapArr elem arr)
  | _ => .val (.err .error)

/-- `get_number` on an argument: ranges and arrays are `#N/IMPL!` -/
def argNumber (a : Arg N) : Except Err N :=
  match a.res with
  | .val v => toNumber O v
  | _ => .error .nimpl

def fnCall (cfg : Cfg) (f : Fn) (args : List (Arg N)) : Res N :=
  match f with
  | .IF => fnIf O args
  | .IFERROR => fnIfError args
  | .AND => fnAndOr O cfg true args
  | .OR => fnAndOr O cfg false args
  | .NOT =>
    match args with
    | [a] =>
      match a.res with
      | .val v => match toBool O v with | .ok b => .val (.bool (!b)) | .error e => .val (.err e)
      | _ => .val (.err .nimpl)
    | _ => .val (.err .error)
  | .SUM =>
    if args.isEmpty then .val (.err .error) else
    match foldItems O.add (args.flatMap (sumItems O)) O.zero with
    | .ok s => .val (.num s)
    | .error e => .val (.err e)
  | .MIN | .MAX =>
    let pick := if f == .MIN then O.min else O.max
    match foldItems (fun (acc : Option N) n => some (match acc with | none => n | some a => pick n a))
        (args.flatMap minMaxItems) none with
    | .error e => .val (.err e)
    | .ok none => .val (.num O.zero)
    | .ok (some r) => .val (.num (if O.finite r then r else O.zero))
  | .COUNT =>
    if args.isEmpty then .val (.err .error)
    else .val (.num (O.ofNat ((args.map (countArg O)).foldl (· + ·) 0)))
  | .COUNTA =>
    if args.isEmpty then .val (.err .error)
    else .val (.num (O.ofNat ((args.map countaArg).foldl (· + ·) 0)))
  | .AVERAGE =>
    if args.isEmpty then .val (.err .error) else
    match foldItems (fun (acc : N × Nat) n => (O.add acc.1 n, acc.2 + 1)) (args.flatMap (avgItems O)) (O.zero, 0) with
    | .error e => .val (.err e)
    | .ok (s, c) => if c == 0 then .val (.err .div) else .val (.num (O.div s (O.ofNat c)))
  | .ABS => fnSingleNumber O O.abs args
  | .ROUND =>
    match args with
    | [a, b] =>
      match argNumber O a with
      | .error e => .val (.err e)
      | .ok x => match argNumber O b with
        | .error e => .val (.err e)
        | .ok d => .val (.num (O.round x d))
    | _ => .val (.err .error)
  | .LEN =>
    match args with
    | [a] =>
      match a.res with
      | .val v => match toText O v with | .ok s => .val (.num (O.ofNat s.length)) | .error e => .val (.err e)
      | _ => .val (.err .nimpl)
    | _ => .val (.err .error)
  | .CONCAT =>
    match args.foldl (fun acc a => match acc with
        | .error e => .error e
        | .ok s => match concatArg O a with | .ok t => .ok (s ++ t) | .error e => .error e)
        (Except.ok "" : Except Err String) with
    | .ok s => .val (.str s)
    | .error e => .val (.err e)
  | .ISNUMBER =>
    match args with
    | [a] => .val (.bool (match a.res with | .val (.num _) => true | _ => false))
    | _ => .val (.err .error)
  | .ISTEXT =>
    match args with
    | [a] => .val (.bool (match a.res with | .val (.str _) => true | _ => false))
    | _ => .val (.err .error)
  | .ISBLANK =>
    match args with
    | [a] => .val (.bool (match a.res with | .val .empty => true | _ => false))
    | _ => .val (.err .error)

/-! ### the evaluator -/

def isRefExpr : Expr N → Bool
  | .ref _ _ => true
  | _ => false

mutual
  /-- models base/src/model.rs::evaluate_node_in_context on the core language -/
  def eval (cfg : Cfg) (env : Env N) : Expr N → Res N
    | .num n => .val (.num n)
    | .str s => .val (.str s)
    | .bool b => .val (.bool b)
    | .err e => .val (.err e)
    | .ref r c => .val (env r c)
    | .range r1 c1 r2 c2 =>
      .rng (rangeVals env (Nat.min r1 r2) (Nat.min c1 c2) (Nat.max r1 r2) (Nat.max c1 c2))
    | .bin op l r => evalBin O op (eval cfg env l) (eval cfg env r)
    | .neg x => evalUnary O O.neg (eval cfg env x)
    | .pct x => evalUnary O O.div100 (eval cfg env x)
    | .call f args => fnCall O cfg f (evalArgs cfg env args)
  def evalArgs (cfg : Cfg) (env : Env N) : Args N → List (Arg N)
    | .nil => []
    | .cons a rest => ⟨isRefExpr a, eval cfg env a⟩ :: evalArgs cfg env rest
end

/-- what `evaluate_cell` makes of the node's result before storing it: a one-cell range is the
    cell's value, a larger range becomes the array of its cells -/
def topLevel : Res N → Res N
  | .rng cells =>
    match cells with
    | [[v]] => .val v
    | _ => .arr cells
  | r => r

/-- the value a cell shows for a stored element: empty → 0, non-finite number → #NUM!
    (Eval/Store.lean: the safety belt) -/
def stored : Val N → Val N
  | .empty => .num O.zero
  | .num n => if O.finite n then .num n else .err .num
  | v => v

/-- the observable outcome of entering the formula in a cell -/
def run (cfg : Cfg) (env : Env N) (e : Expr N) : Res N :=
  match topLevel (eval O cfg env e) with
  | .val v => .val (stored O v)
  | .arr a => .arr (mapArr (stored O) a)
  | r => r

/-! ### the cells a formula reads (syntactically) -/

mutual
  def refs : Expr N → List (Nat × Nat)
    | .ref r c => [(r, c)]
    | .range r1 c1 r2 c2 =>
      (List.range (Nat.max r1 r2 + 1 - Nat.min r1 r2)).flatMap fun i =>
        (List.range (Nat.max c1 c2 + 1 - Nat.min c1 c2)).map fun j => (Nat.min r1 r2 + i, Nat.min c1 c2 + j)
    | .bin _ l r => refs l ++ refs r
    | .neg x => refs x
    | .pct x => refs x
    | .call _ args => refsArgs args
    | _ => []
  def refsArgs : Args N → List (Nat × Nat)
    | .nil => []
    | .cons a rest => refs a ++ refsArgs rest
end

end

end IronCalc.Core
