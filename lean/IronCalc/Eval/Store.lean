/-
  C08 — the single choke point through which every evaluated formula result reaches a cell:
  a model of `base/src/model.rs::set_cells_with_result` (all paths: dynamic array, CSE array,
  scalar-formula-got-array, scalar, empty), of the helpers it calls, and of the typed-number
  path of `Model::set_user_input`.

  Numbers are abstract: a carrier `N` with a finiteness test (`f64::is_finite`) and a zero.
  Styles and formula indices are not modelled (they do not influence which value is stored).
  Rows/columns are `Nat` (the engine uses `i32`; a non-positive width/height gives an empty loop,
  which is what `List.range 0` models).

  `guard : Bool` selects the code version: `true` = the repaired code (array elements go through
  the same NaN/Inf belt as scalars; fix commits F08a/F08b), `false` = the pinned tree, kept so that
  the counter-example of the pinned code stays machine-checked (`C08_pinned_false`).
-/
namespace IronCalc.Store

/-- models base/src/expressions/token.rs::Error -/
inductive Err
  | ref | name | value | div | na | num | error | nimpl | spill | calc | circ | null
  deriving DecidableEq, Repr, Inhabited

/-- what the theorems need from numbers: `finite` models `f64::is_finite`, `zero` models `0.0` -/
structure NumSpec (N : Type) where
  finite : N → Bool
  zero : N
  zero_finite : finite zero = true

/-- models base/src/expressions/parser/mod.rs::ArrayNode -/
inductive ArrayNode (N : Type)
  | boolean (b : Bool) | number (n : N) | string (s : String) | error (e : Err) | empty
  deriving Repr, Inhabited

/-- models base/src/calc_result.rs::CalcResult (ranges and lambdas carry no payload here) -/
inductive CalcResult (N : Type)
  | number (n : N) | string (s : String) | boolean (b : Bool) | error (e : Err)
  | range | emptyCell | emptyArg | array (a : List (List (ArrayNode N))) | lambda
  deriving Repr, Inhabited

/-- models base/src/types.rs::FormulaValue -/
inductive FormulaValue (N : Type)
  | unevaluated | boolean (b : Bool) | number (n : N) | text (s : String) | error (e : Err)
  deriving Repr, Inhabited

/-- models base/src/types.rs::SpillValue -/
inductive SpillValue (N : Type)
  | boolean (b : Bool) | number (n : N) | text (s : String) | error (e : Err)
  deriving Repr, Inhabited

/-- models base/src/types.rs::ArrayKind -/
inductive ArrayKind | cse | dynamic
  deriving DecidableEq, Repr, Inhabited

abbrev Coord := Nat × Nat   -- (row, column)

/-- models base/src/types.rs::Cell (style `s`, formula index `f`, string index `si` dropped) -/
inductive Cell (N : Type)
  | empty
  | boolean (b : Bool)
  | number (n : N)
  | error (e : Err)
  | sharedString (s : String)
  | cellFormula (v : FormulaValue N)
  | arrayFormula (w h : Nat) (kind : ArrayKind) (v : FormulaValue N)
  | spillCell (a : Coord) (v : SpillValue N)
  deriving Repr, Inhabited

/-- `sheet_data` of one worksheet: a finite map as an association list with unique keys
    maintained by `set` (models `HashMap<i32, HashMap<i32, Cell>>`) -/
abbrev Grid (N : Type) := List (Coord × Cell N)

def Grid.get {N} (g : Grid N) (k : Coord) : Option (Cell N) :=
  match g with
  | [] => none
  | (k', c) :: rest => if k' = k then some c else Grid.get rest k

def Grid.set {N} (g : Grid N) (k : Coord) (c : Cell N) : Grid N :=
  (k, c) :: g.filter (fun p => p.1 ≠ k)

def lastRow : Nat := 1048576
def lastColumn : Nat := 16384

/-- does this cell hold a finite number or no number at all -/
def cellFinite {N} (S : NumSpec N) : Cell N → Bool
  | .number n => S.finite n
  | .cellFormula (.number n) => S.finite n
  | .arrayFormula _ _ _ (.number n) => S.finite n
  | .spillCell _ (.number n) => S.finite n
  | _ => true

/-- the C08 invariant: no cell of the sheet holds a non-finite number -/
def AllFinite {N} (S : NumSpec N) (g : Grid N) : Prop := ∀ p ∈ g, cellFinite S p.2 = true

def allFiniteB {N} (S : NumSpec N) (g : Grid N) : Bool := g.all (fun p => cellFinite S p.2)

/-- models base/src/model.rs::array_node_to_formula_value
    (`guard = true`: the repaired code maps a non-finite element to `#NUM!`) -/
def nodeToFormulaValue {N} (S : NumSpec N) (guard : Bool) : ArrayNode N → FormulaValue N
  | .boolean b => .boolean b
  | .number n => if guard && !S.finite n then .error .num else .number n
  | .string s => .text s
  | .error e => .error e
  | .empty => .number S.zero

/-- models base/src/model.rs::array_node_to_spill_value -/
def nodeToSpillValue {N} (S : NumSpec N) (guard : Bool) : ArrayNode N → SpillValue N
  | .boolean b => .boolean b
  | .number n => if guard && !S.finite n then .error .num else .number n
  | .string s => .text s
  | .error e => .error e
  | .empty => .number S.zero

/-- models base/src/model.rs::formula_value_to_spill_value -/
def formulaValueToSpillValue {N} : FormulaValue N → SpillValue N
  | .unevaluated => .error .error
  | .boolean b => .boolean b
  | .number n => .number n
  | .text s => .text s
  | .error e => .error e

/-- models base/src/model.rs::get_value_from_array (1-based, `none` outside the array) -/
def getValueFromArray {N} (a : List (List (ArrayNode N))) (row col : Nat) : Option (ArrayNode N) :=
  let width := (a.headD []).length
  let height := a.length
  if row < 1 || row > height || col < 1 || col > width then none
  else ((a[row - 1]?).getD [])[col - 1]?

/-- the result of a store: the sheet afterwards (the engine mutates in place, so the sheet is
    observable also when `Err` is returned) and whether `Ok(())` was returned -/
structure Out (N : Type) where
  grid : Grid N
  ok : Bool

/-- models base/src/worksheet.rs::update_cell: bounds check, then insert-or-replace -/
def updateCell {N} (o : Out N) (k : Coord) (c : Cell N) : Out N :=
  if !o.ok then o
  else if k.1 < 1 || k.1 > lastRow || k.2 < 1 || k.2 > lastColumn then { o with ok := false }
  else { o with grid := o.grid.set k c }

/-- models `*sheet_data.get_mut(&r).ok_or(..)?.get_mut(&c).ok_or(..)? = cell`:
    replaces an existing entry, `Err` when there is none -/
def replaceCell {N} (o : Out N) (k : Coord) (c : Cell N) : Out N :=
  if !o.ok then o
  else match o.grid.get k with
    | none => { o with ok := false }
    | some _ => { o with grid := o.grid.set k c }

/-- coordinates of the rectangle `row..row+h × col..col+w` in row-major order -/
def rect (row col w h : Nat) : List Coord :=
  (List.range h).flatMap fun i => (List.range w).map fun j => (row + i, col + j)

/-- the tail of `set_cells_with_result` once a scalar `formula_value` is known: build the new
    anchor cell, fill the declared range of a CSE formula with the value, write the anchor -/
def storeFormulaValue {N} (g : Grid N) (row col : Nat) (cell : Cell N) (fv : FormulaValue N) : Out N :=
  match cell with
  | .arrayFormula w h .cse _ =>
    let sv := formulaValueToSpillValue fv
    let o := (rect row col w h).foldl
      (fun o k => if k = (row, col) then o else updateCell o k (.spillCell (row, col) sv)) ⟨g, true⟩
    updateCell o (row, col) (.arrayFormula w h .cse fv)
  | .arrayFormula _ _ .dynamic _ =>
    updateCell ⟨g, true⟩ (row, col) (.arrayFormula 1 1 .dynamic fv)
  | _ => updateCell ⟨g, true⟩ (row, col) (.cellFormula fv)

/-- the `match result` of `set_cells_with_result` for non-array results; `none` = `return Err` -/
def scalarFormulaValue {N} (S : NumSpec N) : CalcResult N → Option (FormulaValue N)
  | .number n => if S.finite n then some (.number n) else some (.error .num)   -- the safety belt
  | .string s => some (.text s)
  | .boolean b => some (.boolean b)
  | .error e => some (.error e)
  | .range => none
  | .emptyCell => some (.number S.zero)
  | .emptyArg => some (.number S.zero)
  | .array _ => none
  | .lambda => none

/-- is the spill area of a dynamic formula at (row, col) blocked? (anchor skipped; empty cells and
    the formula's own spill cells do not block) -/
def blocked {N} (g : Grid N) (row col w h : Nat) : Bool :=
  (rect row col w h).any fun k =>
    if k = (row, col) then false
    else match g.get k with
      | none => false
      | some .empty => false
      | some (.spillCell a _) => a ≠ (row, col)
      | some _ => true

def hasFormula {N} : Cell N → Bool
  | .cellFormula _ => true
  | .arrayFormula _ _ _ _ => true
  | _ => false

/-- array result into the anchor of a dynamic formula: bounds, blockers, then spill -/
def storeArrayDynamic {N} (S : NumSpec N) (guard : Bool) (g : Grid N) (row col : Nat) (cell : Cell N)
    (a : List (List (ArrayNode N))) (width height : Nat) : Out N :=
  if row + height - 1 > lastRow || col + width - 1 > lastColumn then
    storeFormulaValue g row col cell (.error .spill)
  else if blocked g row col width height then
    storeFormulaValue g row col cell (.error .spill)
  else
    (rect row col width height).foldl (fun o k =>
      let value := (((a[k.1 - row]?).getD [])[k.2 - col]?).getD .empty
      if k = (row, col) then
        updateCell o k (.arrayFormula width height .dynamic (nodeToFormulaValue S guard value))
      else
        updateCell o k (.spillCell (row, col) (nodeToSpillValue S guard value))) ⟨g, true⟩

/-- array result into a CSE formula: the declared range w×h is filled from the array -/
def storeArrayCse {N} (S : NumSpec N) (guard : Bool) (g : Grid N) (row col : Nat)
    (a : List (List (ArrayNode N))) (w h : Nat) : Out N :=
  (rect row col w h).foldl (fun o k =>
    let value := getValueFromArray a (k.1 - row + 1) (k.2 - col + 1)
    if k = (row, col) then
      replaceCell o k (.arrayFormula w h .cse
        (match value with | some nd => nodeToFormulaValue S guard nd | none => .error .nimpl))
    else
      replaceCell o k (.spillCell (row, col)
        (match value with | some nd => nodeToSpillValue S guard nd | none => .error .value))) ⟨g, true⟩

/-- array result into a plain formula cell: 1×1 is unwrapped, anything larger is `#VALUE!` -/
def storeArrayScalar {N} (S : NumSpec N) (guard : Bool) (g : Grid N) (row col : Nat)
    (a : List (List (ArrayNode N))) (width height : Nat) : Out N :=
  let coerced : FormulaValue N :=
    if width = 1 && height = 1 then
      match getValueFromArray a 1 1 with
      | some nd => nodeToFormulaValue S guard nd
      | none => .error .value
    else .error .value
  replaceCell ⟨g, true⟩ (row, col) (.cellFormula coerced)

/-- the `if let CalcResult::Array(array) = result` block of `set_cells_with_result` -/
def storeArray {N} (S : NumSpec N) (guard : Bool) (g : Grid N) (row col : Nat) (cell : Cell N)
    (a : List (List (ArrayNode N))) : Out N :=
  let width := (a.headD []).length
  let height := a.length
  if height = 0 || width = 0 then storeFormulaValue g row col cell (.error .calc) else
  match cell with
  | .arrayFormula _ _ .dynamic _ => storeArrayDynamic S guard g row col cell a width height
  | .arrayFormula w h .cse _ => storeArrayCse S guard g row col a w h
  | _ => storeArrayScalar S guard g row col a width height

/-- models base/src/model.rs::set_cells_with_result -/
def store {N} (S : NumSpec N) (guard : Bool) (g : Grid N) (row col : Nat) (cell : Cell N)
    (res : CalcResult N) : Out N :=
  if !hasFormula cell then ⟨g, true⟩ else
  match res with
  | .array a => storeArray S guard g row col cell a
  | r =>
    match scalarFormulaValue S r with
    | none => ⟨g, false⟩
    | some fv => storeFormulaValue g row col cell fv

/-- models the typed-number branch of base/src/model.rs::set_user_input: `parse` stands for
    `parse_formatted_number` (which ends in Rust's `str::parse::<f64>`, `inf` for "1e999");
    `other` is the rest of the cascade (boolean / error name / text), which stores no number.
    `guard = true`: the repaired code treats a non-finite parse as "not a number". -/
def typedCell {N} (S : NumSpec N) (guard : Bool) (parse : String → Option N)
    (other : String → Cell N) (s : String) : Cell N :=
  match parse s with
  | some n => if guard && !S.finite n then other s else .number n
  | none => other s

/-- models the return value of base/src/model.rs::evaluate_cell for an array-formula anchor: the
    value handed to dependents evaluated in the same pass (must mirror what was stored) -/
def anchorReturn {N} (S : NumSpec N) (guard : Bool) : ArrayNode N → CalcResult N
  | .number n => if guard && !S.finite n then .error .num else .number n
  | .boolean b => .boolean b
  | .string s => .string s
  | .error e => .error e
  | .empty => .emptyCell

end IronCalc.Store
