import IronCalc.Eval.Phase1
/-
  Helper lemmas for the phase-1 scheduler (C07): one pass, the restart loop, the base-B measure
  that a reorder decreases, and the values a sound order computes.
-/
namespace IronCalc.Phase1

variable {A : Type}

/-! ### the conflict search -/

theorem firstConflict_none (dep : A → A → Bool) (x : A) :
    ∀ pre, firstConflict dep pre x = none → ∀ a, a ∈ pre → dep a x = false := by
  intro pre
  induction pre with
  | nil => intro _ a ha; cases ha
  | cons b rest ih =>
    intro h a ha
    unfold firstConflict at h
    cases hb : dep b x with
    | true => rw [hb] at h; simp at h
    | false =>
      rw [hb] at h
      simp only [Bool.false_eq_true, if_false, Option.map_eq_none_iff] at h
      rcases List.mem_cons.mp ha with h1 | h1
      · rw [h1]; exact hb
      · exact ih h a h1

/-- the reported position holds a reader of `x`, and nobody before it reads `x` -/
theorem firstConflict_some (dep : A → A → Bool) (x : A) :
    ∀ pre j, firstConflict dep pre x = some j →
      ∃ m rest, pre.drop j = m :: rest ∧ dep m x = true ∧ ∀ a, a ∈ pre.take j → dep a x = false := by
  intro pre
  induction pre with
  | nil => intro j h; simp [firstConflict] at h
  | cons b rest ih =>
    intro j h
    unfold firstConflict at h
    cases hb : dep b x with
    | true =>
      rw [hb] at h
      simp only [if_true, Option.some.injEq] at h
      subst h
      exact ⟨b, rest, rfl, hb, fun a ha => by simp at ha⟩
    | false =>
      rw [hb] at h
      simp only [Bool.false_eq_true, if_false, Option.map_eq_some_iff] at h
      obtain ⟨j', hj', rfl⟩ := h
      obtain ⟨m, rest', h1, h2, h3⟩ := ih j' hj'
      refine ⟨m, rest', by simpa using h1, h2, ?_⟩
      intro a ha
      simp only [List.take_succ_cons, List.mem_cons] at ha
      rcases ha with h4 | h4
      · rw [h4]; exact hb
      · exact h3 a h4

/-! ### one pass -/

theorem scan_none_sound (dep : A → A → Bool) :
    ∀ rest pre, Sound dep pre → scan dep pre rest = none → Sound dep (pre ++ rest) := by
  intro rest
  induction rest with
  | nil => intro pre h _; simpa using h
  | cons x rest ih =>
    intro pre hs h
    unfold scan at h
    cases hc : firstConflict dep pre x with
    | some j => rw [hc] at h; cases h
    | none =>
      rw [hc] at h
      have hno := firstConflict_none dep x pre hc
      have hs' : Sound dep (pre ++ [x]) := by
        unfold Sound
        rw [List.pairwise_append]
        refine ⟨hs, by simp, ?_⟩
        intro a ha b hb
        simp only [List.mem_singleton] at hb
        rw [hb]; exact hno a ha
      have := ih (pre ++ [x]) hs' h
      simpa using this

theorem scan_some_perm (dep : A → A → Bool) :
    ∀ rest pre o, scan dep pre rest = some o → o.Perm (pre ++ rest) := by
  intro rest
  induction rest with
  | nil => intro pre o h; simp [scan] at h
  | cons x rest ih =>
    intro pre o h
    unfold scan at h
    cases hc : firstConflict dep pre x with
    | some j =>
      rw [hc] at h
      simp only [Option.some.injEq] at h
      subst h
      have h1 : (pre.take j ++ x :: pre.drop j ++ rest).Perm (x :: (pre.take j ++ (pre.drop j ++ rest))) := by
        have := @List.perm_middle _ x (pre.take j) (pre.drop j ++ rest)
        simpa [List.append_assoc] using this
      have h2 : (pre ++ x :: rest).Perm (x :: (pre ++ rest)) := List.perm_middle
      have h3 : pre.take j ++ (pre.drop j ++ rest) = pre ++ rest := by
        rw [← List.append_assoc, List.take_append_drop]
      rw [h3] at h1
      exact h1.trans h2.symm
    | none =>
      rw [hc] at h
      have := ih (pre ++ [x]) o h
      simpa using this

theorem pass_none_sound (dep : A → A → Bool) (order : List A) (h : pass dep order = none) :
    Sound dep order := by
  have := scan_none_sound dep order [] (by simp [Sound]) h
  simpa using this

theorem pass_some_perm (dep : A → A → Bool) (order o : List A) (h : pass dep order = some o) :
    o.Perm order := by
  have := scan_some_perm dep order [] o h
  simpa using this

/-! ### the restart loop -/

theorem run_spec (d : A → A → Bool) :
    ∀ fuel count order, (run (fun _ => d) fuel count order).1.Perm order ∧
      ((run (fun _ => d) fuel count order).2.2 = false → Sound d (run (fun _ => d) fuel count order).1) := by
  intro fuel
  induction fuel with
  | zero => intro count order; exact ⟨List.Perm.refl _, fun h => by simp [run] at h⟩
  | succ fuel ih =>
    intro count order
    unfold run
    cases hp : pass d order with
    | none => exact ⟨List.Perm.refl _, fun _ => pass_none_sound d order hp⟩
    | some o =>
      simp only
      obtain ⟨h1, h2⟩ := ih (count + 1) o
      exact ⟨h1.trans (pass_some_perm d order o hp), h2⟩

/-! ### the measure: every reorder makes the rank sequence lexicographically smaller -/

theorem foldl_enc (r : A → Nat) (B : Nat) :
    ∀ (l : List A) (acc : Nat),
      l.foldl (fun acc a => acc * B + r a) acc = acc * B ^ l.length + enc r B l := by
  intro l
  induction l with
  | nil => intro acc; simp [enc]
  | cons a l ih =>
    intro acc
    simp only [List.foldl_cons, List.length_cons, enc]
    rw [ih, ih (0 * B + r a)]
    simp only [Nat.zero_mul, Nat.zero_add, Nat.pow_succ]
    rw [Nat.add_mul, Nat.add_assoc, Nat.mul_assoc, Nat.mul_comm B]

theorem enc_cons (r : A → Nat) (B : Nat) (a : A) (l : List A) :
    enc r B (a :: l) = r a * B ^ l.length + enc r B l := by
  simp only [enc, List.foldl_cons]
  rw [foldl_enc]
  simp [enc]

theorem enc_append (r : A → Nat) (B : Nat) (l1 l2 : List A) :
    enc r B (l1 ++ l2) = enc r B l1 * B ^ l2.length + enc r B l2 := by
  simp only [enc, List.foldl_append]
  rw [foldl_enc]
  simp [enc]

theorem enc_lt_pow (r : A → Nat) (B : Nat) :
    ∀ l : List A, (∀ a, a ∈ l → r a < B) → enc r B l < B ^ l.length := by
  intro l
  induction l with
  | nil => intro _; simp [enc]
  | cons a l ih =>
    intro h
    rw [enc_cons, List.length_cons, Nat.pow_succ]
    have h1 := ih (fun b hb => h b (List.mem_cons_of_mem a hb))
    have h2 : r a < B := h a (by simp)
    calc r a * B ^ l.length + enc r B l
        < r a * B ^ l.length + B ^ l.length := Nat.add_lt_add_left h1 _
      _ = (r a + 1) * B ^ l.length := by rw [Nat.add_mul, Nat.one_mul]
      _ ≤ B * B ^ l.length := Nat.mul_le_mul_right _ h2
      _ = B ^ l.length * B := Nat.mul_comm _ _

/-- a reorder: `x` is taken out from behind `m :: mid` and put in front of `m`, where `m` reads
    `x` (so `x` has the smaller rank) -/
theorem enc_move_lt (r : A → Nat) (B : Nat) (P mid tail : List A) (m x : A)
    (hx : r x < r m) (hB : ∀ a, a ∈ m :: mid ++ tail → r a < B) :
    enc r B (P ++ x :: (m :: mid) ++ tail) < enc r B (P ++ (m :: mid) ++ x :: tail) := by
  have e1 : P ++ x :: (m :: mid) ++ tail = P ++ (x :: (m :: mid ++ tail)) := by simp
  have e2 : P ++ (m :: mid) ++ x :: tail = P ++ (m :: (mid ++ x :: tail)) := by simp
  rw [e1, e2, enc_append, enc_append, enc_cons, enc_cons]
  have hl : (x :: (m :: mid ++ tail)).length = (m :: (mid ++ x :: tail)).length := by
    simp; omega
  rw [hl]
  apply Nat.add_lt_add_left
  have hk : (m :: mid ++ tail).length = (mid ++ x :: tail).length := by simp; omega
  have h1 := enc_lt_pow r B (m :: mid ++ tail) hB
  rw [hk] at h1 ⊢
  calc r x * B ^ (mid ++ x :: tail).length + enc r B (m :: mid ++ tail)
      < r x * B ^ (mid ++ x :: tail).length + B ^ (mid ++ x :: tail).length :=
        Nat.add_lt_add_left h1 _
    _ = (r x + 1) * B ^ (mid ++ x :: tail).length := by rw [Nat.add_mul, Nat.one_mul]
    _ ≤ r m * B ^ (mid ++ x :: tail).length := Nat.mul_le_mul_right _ hx
    _ ≤ r m * B ^ (mid ++ x :: tail).length + enc r B (mid ++ x :: tail) := Nat.le_add_right _ _

theorem scan_some_lt (d : A → A → Bool) (r : A → Nat) (B : Nat)
    (hr : ∀ a b, d a b = true → r b < r a) :
    ∀ rest pre o, (∀ a, a ∈ pre ++ rest → r a < B) → scan d pre rest = some o →
      enc r B o < enc r B (pre ++ rest) := by
  intro rest
  induction rest with
  | nil => intro pre o _ h; simp [scan] at h
  | cons x rest ih =>
    intro pre o hB h
    unfold scan at h
    cases hc : firstConflict d pre x with
    | some j =>
      rw [hc] at h
      simp only [Option.some.injEq] at h
      subst h
      obtain ⟨m, mid, hdrop, hdep, _⟩ := firstConflict_some d x pre j hc
      have hpre : pre = pre.take j ++ (m :: mid) := by rw [← hdrop, List.take_append_drop]
      have hgoal := enc_move_lt r B (pre.take j) mid rest m x (hr m x hdep) (by
        intro a ha
        apply hB a
        rw [hpre]
        simp only [List.mem_append, List.mem_cons] at ha ⊢
        rcases ha with (h1 | h1) | h1
        · left; right; left; exact h1
        · left; right; right; exact h1
        · right; right; exact h1)
      rw [hdrop]
      have e : pre ++ x :: rest = pre.take j ++ (m :: mid) ++ x :: rest := by rw [← hpre]
      rw [e]
      exact hgoal
    | none =>
      rw [hc] at h
      have := ih (pre ++ [x]) o (by simpa using hB) h
      simpa using this

theorem run_terminates (d : A → A → Bool) (r : A → Nat) (B : Nat)
    (hr : ∀ a b, d a b = true → r b < r a) :
    ∀ fuel count order, (∀ a, a ∈ order → r a < B) → enc r B order < fuel →
      (run (fun _ => d) fuel count order).2.2 = false := by
  intro fuel
  induction fuel with
  | zero => intro _ _ _ h; omega
  | succ fuel ih =>
    intro count order hB hlt
    unfold run
    cases hp : pass d order with
    | none => rfl
    | some o =>
      simp only
      have hperm := pass_some_perm d order o hp
      have hdec := scan_some_lt d r B hr order [] o (by simpa using hB) hp
      apply ih
      · intro a ha; exact hB a (hperm.mem_iff.mp ha)
      · simp only [List.nil_append] at hdec; omega

/-! ### values -/

theorem evalPass_cons {V : Type} [DecidableEq A] (F : A → (A → V) → V) (x : A) (o : List A)
    (σ : A → V) :
    evalPass F (x :: o) σ = evalPass F o (fun b => if b = x then F x σ else σ b) := rfl

theorem evalPass_not_mem {V : Type} [DecidableEq A] (F : A → (A → V) → V) :
    ∀ (o : List A) (σ : A → V) (b : A), b ∉ o → evalPass F o σ b = σ b := by
  intro o
  induction o with
  | nil => intro σ b _; rfl
  | cons x o ih =>
    intro σ b hb
    rw [evalPass_cons, ih _ b (fun h => hb (List.mem_cons_of_mem x h))]
    have : b ≠ x := fun h => hb (by rw [h]; simp)
    simp [this]

/-- after a pass over a sound order every anchor holds the value of its formula over the FINAL
    values: it was evaluated after everything it reads -/
theorem evalPass_fixpoint {V : Type} [DecidableEq A] (d : A → A → Bool) (F : A → (A → V) → V)
    (hF : Respects d F) (hirr : ∀ a, d a a = false) :
    ∀ (o : List A) (σ : A → V), o.Nodup → Sound d o →
      ∀ a, a ∈ o → evalPass F o σ a = F a (evalPass F o σ) := by
  intro o
  induction o with
  | nil => intro _ _ _ a ha; cases ha
  | cons x o ih =>
    intro σ hnd hs a ha
    rw [evalPass_cons]
    simp only [List.nodup_cons] at hnd
    unfold Sound at hs
    rw [List.pairwise_cons] at hs
    rcases List.mem_cons.mp ha with h1 | h1
    · subst h1
      rw [evalPass_not_mem F o _ a hnd.1]
      simp only [if_true]
      apply hF
      intro b hb
      -- `a` reads `b`: `b` is neither `a` nor a later anchor, so it was not touched
      have hba : b ≠ a := by intro h; rw [h, hirr] at hb; cases hb
      have hbo : b ∉ o := by intro h; rw [hs.1 b h] at hb; cases hb
      rw [evalPass_not_mem F o _ b hbo]
      simp [hba]
    · exact ih _ hnd.2 hs.2 a h1

/-- two assignments that satisfy all equations of an acyclic, closed system agree -/
theorem fixpoint_unique {V : Type} (d : A → A → Bool) (F : A → (A → V) → V) (hF : Respects d F)
    (r : A → Nat) (hr : ∀ a b, d a b = true → r b < r a) (S : A → Prop)
    (hclosed : ∀ a b, S a → d a b = true → S b) (τ1 τ2 : A → V)
    (h1 : ∀ a, S a → τ1 a = F a τ1) (h2 : ∀ a, S a → τ2 a = F a τ2) :
    ∀ n a, r a < n → S a → τ1 a = τ2 a := by
  intro n
  induction n with
  | zero => intro a h; omega
  | succ n ih =>
    intro a hlt hS
    rw [h1 a hS, h2 a hS]
    apply hF
    intro b hb
    exact ih b (by have := hr a b hb; omega) (hclosed a b hS hb)

end IronCalc.Phase1
