/-
  M-Eval / Memo — the recursive, memoising, demand-driven evaluator of `Model::evaluate`
  (base/src/model.rs: `evaluate_cell`, `evaluate_node_in_context`, phase 2 of `evaluate`),
  without spills (those are Eval/Spill.lean).

  Cells are `empty | plain v | formula e`.  A formula is a small expression language that is
  evaluated LAZILY through a read callback, exactly as `evaluate_node_in_context` calls
  `evaluate_cell` for a `ReferenceKind` node: references, a strict binary operator
  (`handle_arithmetic`: left operand first, early return on an error), IF (lazy in its
  branches), IFERROR and ISERROR (error trapping), SUM over a list of cells (early return on
  the first error).  Numbers are an abstract type `N` with an operations record; the driver
  instantiates it with hardware doubles, the `decide`d examples with `Int`.

  No Mathlib.  Proofs are in Eval/MemoProofs.lean, property theorems in Props/C05.lean.
-/
namespace IronCalc.Memo

/-- models base/src/expressions/token.rs::Error (the kinds that can occur in this fragment) -/
inductive Err where
  | circ | div | value | num | na | ref | name | error | nimpl | spill | calc | null
  deriving DecidableEq, Repr

/-- models base/src/calc_result.rs::CalcResult restricted to scalars -/
inductive Val (N : Type) where
  | num (n : N)
  | str (s : String)
  | bool (b : Bool)
  | err (e : Err)
  | empty
  deriving DecidableEq, Repr

abbrev Coord := Nat

inductive Op where
  | add | sub | mul | div
  deriving DecidableEq, Repr

/-- the formula fragment (a `parser::Node` restricted to what the property needs) -/
inductive Expr (N : Type) where
  | lit (v : Val N)                 -- NumberKind / StringKind / BooleanKind / ErrorKind
  | ref (c : Coord)                 -- ReferenceKind
  | bin (op : Op) (l r : Expr N)    -- OpSumKind / OpProductKind
  | iff (c t e : Expr N)            -- FunctionKind IF, three arguments, scalar condition
  | iferror (a b : Expr N)          -- FunctionKind IFERROR, scalar value
  | iserror (a : Expr N)            -- FunctionKind ISERROR
  | sum (cs : List Coord)           -- FunctionKind SUM over one range (cells in row-major order)
  deriving Repr

inductive Cell (N : Type) where
  | empty
  | plain (v : Val N)               -- NumberCell / BooleanCell / ErrorCell / SharedString
  | formula (e : Expr N)            -- CellFormula
  deriving Repr

/-- the arithmetic the engine performs on `f64` -/
structure NumOps (N : Type) where
  zero : N
  one : N
  add : N → N → N
  sub : N → N → N
  mul : N → N → N
  div : N → N → N
  isZero : N → Bool
  finite : N → Bool

variable {N : Type}

/-- models base/src/cast.rs::get_number_or_array / cast_to_number on a scalar.
    Text is opaque here: it never parses as a number (the generator only emits such text). -/
def toNum (ops : NumOps N) : Val N → Except Err N
  | .num n => .ok n
  | .str _ => .error .value
  | .bool b => .ok (if b then ops.one else ops.zero)
  | .empty => .ok ops.zero
  | .err e => .error e

/-- models base/src/cast.rs::cast_to_bool on a scalar (text other than true/false) -/
def toBool (ops : NumOps N) : Val N → Except Err Bool
  | .num n => .ok (!ops.isZero n)
  | .str _ => .error .value
  | .bool b => .ok b
  | .empty => .ok false
  | .err e => .error e

/-- models the closures passed to base/src/arithmetic.rs::handle_arithmetic, case Number×Number -/
def arith (ops : NumOps N) (op : Op) (x y : N) : Val N :=
  match op with
  | .add => .num (ops.add x y)
  | .sub => .num (ops.sub x y)
  | .mul => .num (ops.mul x y)
  | .div => if ops.isZero y then .err .div else .num (ops.div x y)

/-- SUM's loop over the cells of a range: numbers are added, an error returns at once,
    everything else is ignored.  models functions/math_and_trigonometry/mathematical.rs::fn_sum -/
def sumLoop {S : Type} (ops : NumOps N) (rd : Coord → S → Val N × S) :
    List Coord → N → S → Val N × S
  | [], acc, s => (.num acc, s)
  | c :: cs, acc, s =>
    let p := rd c s
    match p.1 with
    | .num n => sumLoop ops rd cs (ops.add acc n) p.2
    | .err e => (.err e, p.2)
    | _ => sumLoop ops rd cs acc p.2

/-- models base/src/model.rs::evaluate_node_in_context: evaluation threads a state `S` through
    the reads it actually performs, in the engine's order, with the engine's early returns. -/
def evalExpr {S : Type} (ops : NumOps N) (rd : Coord → S → Val N × S) : Expr N → S → Val N × S
  | .lit v, s => (v, s)
  | .ref c, s => rd c s
  | .bin op l r, s =>
    let p := evalExpr ops rd l s
    match toNum ops p.1 with
    | .error e => (.err e, p.2)
    | .ok x =>
      let q := evalExpr ops rd r p.2
      match toNum ops q.1 with
      | .error e => (.err e, q.2)
      | .ok y => (arith ops op x y, q.2)
  | .iff c t e, s =>
    let p := evalExpr ops rd c s
    match toBool ops p.1 with
    | .error x => (.err x, p.2)
    | .ok true => evalExpr ops rd t p.2
    | .ok false => evalExpr ops rd e p.2
  | .iferror a b, s =>
    let p := evalExpr ops rd a s
    match p.1 with
    | .err _ => evalExpr ops rd b p.2
    | v => (v, p.2)
  | .iserror a, s =>
    let p := evalExpr ops rd a s
    match p.1 with
    | .err _ => (.bool true, p.2)
    | _ => (.bool false, p.2)
  | .sum cs, s => sumLoop ops rd cs ops.zero s

/-- the value a formula produces over an environment of cell values (no state, no memo):
    the same evaluator with a read callback that just looks the cell up -/
def pureEval (ops : NumOps N) (env : Coord → Val N) (e : Expr N) : Val N :=
  (evalExpr ops (fun c (u : Unit) => (env c, u)) e ()).1

/-- models base/src/model.rs::set_cells_with_result, scalar path: what is stored for a result.
    An empty result is stored as the number 0, a non-finite number as `#NUM!`. -/
def store (ops : NumOps N) : Val N → Val N
  | .empty => .num ops.zero
  | .num n => if ops.finite n then .num n else .err .num
  | v => v

/-- models base/src/model.rs::CellState -/
inductive Mark where
  | evaluating | evaluated
  deriving DecidableEq, Repr

/-- the evaluator's state: `Model::cells` (marks), the `v` fields of formula cells (`val`),
    plus two ghost fields used only to state theorems: the cells whose read found them
    `Evaluating` (`hits`, newest first) and whether the fuel ran out (`oof`). -/
structure St (N : Type) where
  mark : Coord → Option Mark
  val : Coord → Val N
  hits : List Coord
  oof : Bool

def St.setMark (s : St N) (c : Coord) (m : Mark) : St N :=
  { s with mark := fun d => if d = c then some m else s.mark d }

def St.finish (s : St N) (c : Coord) (v : Val N) : St N :=
  { s with mark := fun d => if d = c then some .evaluated else s.mark d,
           val := fun d => if d = c then v else s.val d }

/-- models base/src/model.rs::evaluate_cell (lines 1411–1611) for non-array cells.
    `fuel` bounds the recursion depth (the engine uses the call stack); `fuel` = number of
    formula cells + 1 always suffices (`evaluateAll_fuel_ok`). -/
def evalCell (ops : NumOps N) (wb : Coord → Cell N) : Nat → Coord → St N → Val N × St N
  | 0, _, s => (.err .error, { s with oof := true })
  | fuel + 1, c, s =>
    match wb c with
    | .empty => (.empty, s)                      -- fetch_cell → None / EmptyCell
    | .plain v => (v, s)                         -- get_cell_value
    | .formula e =>
      match s.mark c with
      | some .evaluating => (.err .circ, { s with hits := c :: s.hits })   -- #CIRC! on re-entry
      | some .evaluated => (s.val c, s)          -- memoised
      | none =>
        let p := evalExpr ops (evalCell ops wb fuel) e (s.setMark c .evaluating)
        -- the stored value is what is returned (fix F05b; the pinned tree returned `p.1`)
        (store ops p.1, p.2.finish c (store ops p.1))

/-- the state `Model::evaluate` starts from: `self.cells.clear()`; stored values are whatever
    the previous evaluation left (they are never read before being rewritten) -/
def St.fresh (old : Coord → Val N) : St N :=
  { mark := fun _ => none, val := old, hits := [], oof := false }

/-- models phase 2 of base/src/model.rs::evaluate: every cell in natural order -/
def evaluateFrom (ops : NumOps N) (wb : Coord → Cell N) (fuel : Nat) (order : List Coord)
    (s : St N) : St N :=
  order.foldl (fun s c => (evalCell ops wb fuel c s).2) s

def evaluateAll (ops : NumOps N) (wb : Coord → Cell N) (order : List Coord)
    (old : Coord → Val N) : St N :=
  evaluateFrom ops wb (order.length + 1) order (St.fresh old)

/-- the value shown by a cell in state `s` (models `get_cell_value`) -/
def lookup (wb : Coord → Cell N) (s : St N) (c : Coord) : Val N :=
  match wb c with
  | .empty => .empty
  | .plain v => v
  | .formula _ => s.val c

/-- a workbook given as a finite list of (coordinate, cell); other coordinates are empty -/
def ofList (cells : List (Coord × Cell N)) : Coord → Cell N :=
  fun c => match cells.find? (fun p => p.1 == c) with
    | some p => p.2
    | none => .empty

def isFormula : Cell N → Bool
  | .formula _ => true
  | _ => false

/-- `Int` instance used by the kernel-evaluated examples -/
def intOps : NumOps Int :=
  { zero := 0, one := 1, add := (· + ·), sub := (· - ·), mul := (· * ·), div := (· / ·),
    isZero := (· == 0), finite := fun _ => true }

/-- formulas without error-trapping functions: the fragment on which `#CIRC!` is strict -/
def Expr.strict : Expr N → Bool
  | .lit _ => true
  | .ref _ => true
  | .bin _ l r => l.strict && r.strict
  | .iff c t e => c.strict && t.strict && e.strict
  | .iferror _ _ => false
  | .iserror _ => false
  | .sum _ => true

/-- no `#CIRC!` literal inside a formula -/
def Expr.noCircLit : Expr N → Bool
  | .lit (.err .circ) => false
  | .lit _ => true
  | .ref _ => true
  | .bin _ l r => l.noCircLit && r.noCircLit
  | .iff c t e => c.noCircLit && t.noCircLit && e.noCircLit
  | .iferror a b => a.noCircLit && b.noCircLit
  | .iserror a => a.noCircLit
  | .sum _ => true

end IronCalc.Memo
