import IronCalc.Eval.Spill
/-
  Helper lemmas for C31: the spill invariant and its preservation.
-/
namespace IronCalc.Spill

variable {V : Type}

/-- the structural invariant of a worksheet with array formulas -/
structure SpillInv (B : Bounds) (g : Grid V) : Prop where
  /-- every spill cell lies in the block of an anchor that exists at the recorded position -/
  spillOk : ∀ i j ar ac v, g i j = .spill ar ac v →
    ∃ k w h v', g ar ac = .anchor k w h v' ∧ inBlock ar ac h w i j ∧ ¬(i = ar ∧ j = ac)
  /-- the block of a dynamic anchor is inside the grid and consists, apart from the anchor,
      of spill cells of that anchor (hence blocks of different anchors are disjoint) -/
  dynOk : ∀ r c w h v, g r c = .anchor .dyn w h v →
    1 ≤ w ∧ 1 ≤ h ∧ r + h - 1 ≤ B.maxR ∧ c + w - 1 ≤ B.maxC ∧
    ∀ i j, inBlock r c h w i j → ¬(i = r ∧ j = c) → ∃ v', g i j = .spill r c v'

/-- the invariant while the anchor at (r,c) is being re-evaluated: its own spill is gone -/
structure InvExcept (B : Bounds) (g : Grid V) (r c : Nat) : Prop where
  spillOk : ∀ i j ar ac v, g i j = .spill ar ac v →
    ∃ k w h v', g ar ac = .anchor k w h v' ∧ inBlock ar ac h w i j ∧ ¬(i = ar ∧ j = ac)
  dynOk : ∀ r' c' w h v, g r' c' = .anchor .dyn w h v → ¬(r' = r ∧ c' = c) →
    1 ≤ w ∧ 1 ≤ h ∧ r' + h - 1 ≤ B.maxR ∧ c' + w - 1 ≤ B.maxC ∧
    ∀ i j, inBlock r' c' h w i j → ¬(i = r' ∧ j = c') → ∃ v', g i j = .spill r' c' v'
  noOwn : ∀ i j v, g i j ≠ .spill r c v
  isAnchor : ∃ w h v, g r c = .anchor .dyn w h v
  pos : r ≤ B.maxR ∧ c ≤ B.maxC

theorem blocked_false_spec (g : Grid V) (r c h w : Nat) (hb : blocked g r c h w = false)
    (di dj : Nat) (hdi : di < h) (hdj : dj < w) (hne : ¬(di = 0 ∧ dj = 0)) :
    blockingCell r c (g (r + di) (c + dj)) = false := by
  unfold blocked at hb
  rw [List.any_eq_false] at hb
  have h1 := hb di (List.mem_range.mpr hdi)
  simp only [Bool.not_eq_true] at h1
  rw [List.any_eq_false] at h1
  have h2 := h1 dj (List.mem_range.mpr hdj)
  simp only [Bool.and_eq_true, Bool.not_eq_true', not_and, Bool.not_eq_true] at h2
  apply h2
  cases hd : (di == 0 && dj == 0) with
  | false => rfl
  | true =>
    simp only [Bool.and_eq_true, beq_iff_eq] at hd
    exact absurd hd hne

theorem blocked_true_spec (g : Grid V) (r c h w : Nat) (hb : blocked g r c h w = true) :
    ∃ di dj, di < h ∧ dj < w ∧ ¬(di = 0 ∧ dj = 0) ∧
      blockingCell r c (g (r + di) (c + dj)) = true := by
  unfold blocked at hb
  rw [List.any_eq_true] at hb
  obtain ⟨di, hdi, h1⟩ := hb
  rw [List.any_eq_true] at h1
  obtain ⟨dj, hdj, h2⟩ := h1
  simp only [Bool.and_eq_true, Bool.not_eq_true', Bool.and_eq_false_iff, beq_eq_false_iff_ne] at h2
  refine ⟨di, dj, List.mem_range.mp hdi, List.mem_range.mp hdj, ?_, h2.2⟩
  intro hh
  rcases h2.1 with h3 | h3
  · exact h3 hh.1
  · exact h3 hh.2

/-- in-block coordinates as offsets -/
theorem inBlock_offsets {r c h w i j : Nat} (hin : inBlock r c h w i j) :
    ∃ di dj, di < h ∧ dj < w ∧ i = r + di ∧ j = c + dj := by
  unfold inBlock at hin
  exact ⟨i - r, j - c, by omega, by omega, by omega, by omega⟩

theorem clearOwn_inv (B : Bounds) (g : Grid V) (r c w h : Nat) (v : V)
    (hinv : SpillInv B g) (ha : g r c = .anchor .dyn w h v) :
    InvExcept B (clearOwn g r c w h) r c := by
  have hsame : ∀ i j, clearOwn g r c w h i j = g i j ∨ clearOwn g r c w h i j = .empty := by
    intro i j
    unfold clearOwn
    split
    · right; rfl
    · left; rfl
  have hkeep : ∀ i j, isOwnSpill r c (g i j) = false → clearOwn g r c w h i j = g i j := by
    intro i j hn
    unfold clearOwn
    simp [hn]
  have hrc : clearOwn g r c w h r c = g r c := by
    unfold clearOwn; simp
  refine ⟨?_, ?_, ?_, ⟨w, h, v, by rw [hrc, ha]⟩, ?_⟩
  · intro i j ar ac v' hs
    have hg : g i j = .spill ar ac v' := by
      rcases hsame i j with h1 | h1
      · rw [← h1]; exact hs
      · rw [h1] at hs; cases hs
    obtain ⟨k, w', h', v'', hanc, hin, hne⟩ := hinv.spillOk i j ar ac v' hg
    refine ⟨k, w', h', v'', ?_, hin, hne⟩
    rw [hkeep ar ac (by rw [hanc]; rfl)]; exact hanc
  · intro r' c' w' h' v' hanc hne
    have hg : g r' c' = .anchor .dyn w' h' v' := by
      rcases hsame r' c' with h1 | h1
      · rw [← h1]; exact hanc
      · rw [h1] at hanc; cases hanc
    obtain ⟨h1, h2, h3, h4, h5⟩ := hinv.dynOk r' c' w' h' v' hg
    refine ⟨h1, h2, h3, h4, ?_⟩
    intro i j hin hnc
    obtain ⟨v'', hv⟩ := h5 i j hin hnc
    refine ⟨v'', ?_⟩
    rw [hkeep i j]
    · exact hv
    · rw [hv]
      simp only [isOwnSpill, Bool.and_eq_false_iff, beq_eq_false_iff_ne]
      by_cases hr : r' = r
      · right; intro hc; exact hne ⟨hr, hc⟩
      · left; exact hr
  · intro i j v' hs
    have hg : g i j = .spill r c v' := by
      rcases hsame i j with h1 | h1
      · rw [← h1]; exact hs
      · rw [h1] at hs; cases hs
    obtain ⟨k, w', h', v'', hanc, hin, hne⟩ := hinv.spillOk i j r c v' hg
    rw [ha] at hanc
    cases hanc
    have : clearOwn g r c w h i j = .empty := by
      unfold clearOwn
      rw [if_pos]
      refine ⟨hin, hne, ?_⟩
      rw [hg]; simp [isOwnSpill]
    rw [this] at hs; cases hs
  · obtain ⟨_, h2, h3, h4, _⟩ := hinv.dynOk r c w h v ha
    omega

/-- writing a 1×1 anchor (scalar result, #CALC!, #SPILL!) restores the invariant -/
theorem set11_inv (B : Bounds) (g : Grid V) (r c : Nat) (x : V) (hinv : InvExcept B g r c) :
    SpillInv B (set g r c (.anchor .dyn 1 1 x)) := by
  obtain ⟨w0, h0, v0, ha⟩ := hinv.isAnchor
  refine ⟨?_, ?_⟩
  · intro i j ar ac v hs
    have hij : ¬(i = r ∧ j = c) := by
      intro hh; simp [set, hh] at hs
    have hg : g i j = .spill ar ac v := by simpa [set, hij] using hs
    obtain ⟨k, w', h', v', hanc, hin, hne⟩ := hinv.spillOk i j ar ac v hg
    have harc : ¬(ar = r ∧ ac = c) := by
      intro hh; rw [hh.1, hh.2] at hg; exact hinv.noOwn i j v hg
    exact ⟨k, w', h', v', by simpa [set, harc] using hanc, hin, hne⟩
  · intro r' c' w h v hanc
    by_cases hrc : r' = r ∧ c' = c
    · obtain ⟨hr, hc⟩ := hrc
      subst hr; subst hc
      simp only [set, and_self, if_true] at hanc
      cases hanc
      refine ⟨Nat.le_refl _, Nat.le_refl _, by have := hinv.pos; omega, by have := hinv.pos; omega, ?_⟩
      intro i j hin hne
      unfold inBlock at hin
      exact absurd ⟨by omega, by omega⟩ hne
    · have hg : g r' c' = .anchor .dyn w h v := by simpa [set, hrc] using hanc
      obtain ⟨h1, h2, h3, h4, h5⟩ := hinv.dynOk r' c' w h v hg hrc
      refine ⟨h1, h2, h3, h4, ?_⟩
      intro i j hin hne
      obtain ⟨v', hv⟩ := h5 i j hin hne
      have hij : ¬(i = r ∧ j = c) := by
        intro hh; rw [hh.1, hh.2, ha] at hv; cases hv
      exact ⟨v', by simpa [set, hij] using hv⟩

theorem writeDyn_inv (B : Bounds) (vals : Vals V) (g : Grid V) (r c : Nat) (res : Result V)
    (hinv : InvExcept B g r c) : SpillInv B (writeDyn B vals g r c res) := by
  cases res with
  | scalar v => exact set11_inv B g r c v hinv
  | array a =>
    by_cases hz : a.h = 0 ∨ a.w = 0
    · have heq : writeDyn B vals g r c (.array a) = set g r c (.anchor .dyn 1 1 vals.calcErr) := by
        simp only [writeDyn, hz, if_true]
      rw [heq]; exact set11_inv B g r c _ hinv
    · by_cases hb : outOfGrid B r c a.h a.w = true ∨ blocked g r c a.h a.w = true
      · have heq : writeDyn B vals g r c (.array a) = set g r c (.anchor .dyn 1 1 vals.spillErr) := by
          simp only [writeDyn, hz, hb, if_true, if_false]
        rw [heq]; exact set11_inv B g r c _ hinv
      · have heq : writeDyn B vals g r c (.array a) = fun i j =>
            if inBlock r c a.h a.w i j then
              if i = r ∧ j = c then .anchor .dyn a.w a.h (a.get 0 0)
              else .spill r c (a.get (i - r) (j - c))
            else g i j := by
          simp only [writeDyn, hz, hb, if_false]
        rw [heq]
        have hz' : 1 ≤ a.h ∧ 1 ≤ a.w := by omega
        have hog : outOfGrid B r c a.h a.w = false := by
          cases h : outOfGrid B r c a.h a.w with
          | false => rfl
          | true => exact absurd (Or.inl h) hb
        have hbl : blocked g r c a.h a.w = false := by
          cases h : blocked g r c a.h a.w with
          | false => rfl
          | true => exact absurd (Or.inr h) hb
        obtain ⟨w0, h0, v0, ha⟩ := hinv.isAnchor
        -- a cell of the new block other than the corner is empty or … (never blocking) in g
        have hfree : ∀ i j, inBlock r c a.h a.w i j → ¬(i = r ∧ j = c) →
            blockingCell r c (g i j) = false := by
          intro i j hin hne
          obtain ⟨di, dj, h1, h2, h3, h4⟩ := inBlock_offsets hin
          subst h3; subst h4
          exact blocked_false_spec g r c a.h a.w hbl di dj h1 h2 (by omega)
        refine ⟨?_, ?_⟩
        · intro i j ar ac v hs
          by_cases hin : inBlock r c a.h a.w i j
          · simp only [hin, if_true] at hs
            by_cases hij : i = r ∧ j = c
            · simp [hij] at hs
            · simp only [hij, if_false] at hs
              cases hs
              refine ⟨.dyn, a.w, a.h, a.get 0 0, ?_, hin, hij⟩
              have : inBlock r c a.h a.w r c := by unfold inBlock; omega
              simp [this]
          · simp only [hin, if_false] at hs
            obtain ⟨k, w', h', v', hanc, hin', hne⟩ := hinv.spillOk i j ar ac v hs
            have harc : ¬(ar = r ∧ ac = c) := by
              intro hh; rw [hh.1, hh.2] at hs; exact hinv.noOwn i j v hs
            have hout : ¬ inBlock r c a.h a.w ar ac := by
              intro hh
              have := hfree ar ac hh harc
              rw [hanc] at this; simp [blockingCell] at this
            exact ⟨k, w', h', v', by simp only [hout, if_false]; exact hanc, hin', hne⟩
        · intro r' c' w h v hanc
          by_cases hrc : r' = r ∧ c' = c
          · obtain ⟨hr, hc⟩ := hrc
            subst hr; subst hc
            have hself : inBlock r' c' a.h a.w r' c' := by unfold inBlock; omega
            simp only [hself, and_self, if_true] at hanc
            cases hanc
            simp only [outOfGrid, Bool.or_eq_false_iff, decide_eq_false_iff_not] at hog
            refine ⟨hz'.2, hz'.1, by omega, by omega, ?_⟩
            intro i j hin hne
            exact ⟨a.get (i - r') (j - c'), by simp [hin, hne]⟩
          · have hout : ¬ inBlock r c a.h a.w r' c' := by
              intro hh
              simp only [hh, if_true, hrc, if_false] at hanc
              cases hanc
            simp only [hout, if_false] at hanc
            obtain ⟨h1, h2, h3, h4, h5⟩ := hinv.dynOk r' c' w h v hanc hrc
            refine ⟨h1, h2, h3, h4, ?_⟩
            intro i j hin hne
            obtain ⟨v', hv⟩ := h5 i j hin hne
            have hnin : ¬ inBlock r c a.h a.w i j := by
              intro hh
              by_cases hij : i = r ∧ j = c
              · rw [hij.1, hij.2, ha] at hv; cases hv
              · have := hfree i j hh hij
                rw [hv] at this
                simp only [blockingCell, Bool.not_eq_false', Bool.and_eq_true, beq_iff_eq] at this
                exact hrc this
            exact ⟨v', by simp only [hnin, if_false]; exact hv⟩

theorem evalDyn_dyn (B : Bounds) (vals : Vals V) (g : Grid V) (r c w h : Nat) (v : V)
    (res : Result V) (ha : g r c = .anchor .dyn w h v) :
    evalDyn B vals g r c res = writeDyn B vals (clearOwn g r c w h) r c res := by
  simp only [evalDyn, ha]

theorem evalDyn_other (B : Bounds) (vals : Vals V) (g : Grid V) (r c : Nat) (res : Result V)
    (hn : ∀ w h v, g r c ≠ .anchor .dyn w h v) : evalDyn B vals g r c res = g := by
  unfold evalDyn
  split
  · rename_i w h v ha; exact absurd ha (hn w h v)
  · rfl

/-! ### user edits and resets -/

/-- contents a user edit can put into one cell -/
def Simple (x : GCell V) : Prop :=
  x = .empty ∨ (∃ v, x = .plain v) ∨ (∃ v, x = .formula v) ∨ (∃ v, x = .anchor .dyn 1 1 v)

theorem set_simple_inv (B : Bounds) (g : Grid V) (r c : Nat) (x : GCell V)
    (hinv : SpillInv B g) (hpos : r ≤ B.maxR ∧ c ≤ B.maxC) (hx : Simple x)
    (hns : ∀ ar ac v, g r c ≠ .spill ar ac v) (hnc : ∀ i j v, g i j ≠ .spill r c v) :
    SpillInv B (set g r c x) := by
  refine ⟨?_, ?_⟩
  · intro i j ar ac v hs
    have hij : ¬(i = r ∧ j = c) := by
      intro hh
      simp only [set, hh, and_self, if_true] at hs
      rcases hx with h | ⟨_, h⟩ | ⟨_, h⟩ | ⟨_, h⟩ <;> rw [h] at hs <;> cases hs
    have hg : g i j = .spill ar ac v := by simpa [set, hij] using hs
    obtain ⟨k, w', h', v', hanc, hin, hne⟩ := hinv.spillOk i j ar ac v hg
    have harc : ¬(ar = r ∧ ac = c) := by
      intro hh; rw [hh.1, hh.2] at hg; exact hnc i j v hg
    exact ⟨k, w', h', v', by simpa [set, harc] using hanc, hin, hne⟩
  · intro r' c' w h v hanc
    by_cases hrc : r' = r ∧ c' = c
    · obtain ⟨hr, hc⟩ := hrc
      subst hr; subst hc
      simp only [set, and_self, if_true] at hanc
      rcases hx with h1 | ⟨_, h1⟩ | ⟨_, h1⟩ | ⟨_, h1⟩ <;> rw [h1] at hanc <;> cases hanc
      refine ⟨Nat.le_refl _, Nat.le_refl _, by omega, by omega, ?_⟩
      intro i j hin hne
      unfold inBlock at hin
      exact absurd ⟨by omega, by omega⟩ hne
    · have hg : g r' c' = .anchor .dyn w h v := by simpa [set, hrc] using hanc
      obtain ⟨h1, h2, h3, h4, h5⟩ := hinv.dynOk r' c' w h v hg
      refine ⟨h1, h2, h3, h4, ?_⟩
      intro i j hin hne
      obtain ⟨v', hv⟩ := h5 i j hin hne
      have hij : ¬(i = r ∧ j = c) := by
        intro hh; rw [hh.1, hh.2] at hv; exact hns r' c' v' hv
      exact ⟨v', by simpa [set, hij] using hv⟩

/-- clearing the whole block of a dynamic anchor, anchor included -/
theorem clearWhole_inv (B : Bounds) (g : Grid V) (r c w h : Nat) (v : V)
    (hinv : SpillInv B g) (ha : g r c = .anchor .dyn w h v) :
    SpillInv B (fun i j => if inBlock r c h w i j then .empty else g i j) ∧
    (∀ i j v', (fun i j => if inBlock r c h w i j then GCell.empty else g i j) i j ≠ .spill r c v') := by
  obtain ⟨d1, d2, d3, d4, d5⟩ := hinv.dynOk r c w h v ha
  have hself : inBlock r c h w r c := by unfold inBlock; omega
  refine ⟨⟨?_, ?_⟩, ?_⟩
  · intro i j ar ac v' hs
    by_cases hin : inBlock r c h w i j
    · simp [hin] at hs
    · simp only [hin, if_false] at hs
      obtain ⟨k, w', h', v'', hanc, hin', hne⟩ := hinv.spillOk i j ar ac v' hs
      have hout : ¬ inBlock r c h w ar ac := by
        intro hh
        by_cases hc : ar = r ∧ ac = c
        · rw [hc.1, hc.2] at hanc hin'; rw [ha] at hanc; cases hanc; exact hin hin'
        · obtain ⟨v3, hv3⟩ := d5 ar ac hh hc
          rw [hv3] at hanc; cases hanc
      exact ⟨k, w', h', v'', by simp only [hout, if_false]; exact hanc, hin', hne⟩
  · intro r' c' w' h' v' hanc
    by_cases hin : inBlock r c h w r' c'
    · simp [hin] at hanc
    · simp only [hin, if_false] at hanc
      have hrc : ¬(r' = r ∧ c' = c) := by intro hh; rw [hh.1, hh.2] at hin; exact hin hself
      obtain ⟨h1, h2, h3, h4, h5⟩ := hinv.dynOk r' c' w' h' v' hanc
      refine ⟨h1, h2, h3, h4, ?_⟩
      intro i j hin' hne
      obtain ⟨v'', hv⟩ := h5 i j hin' hne
      have hnin : ¬ inBlock r c h w i j := by
        intro hh
        by_cases hc : i = r ∧ j = c
        · rw [hc.1, hc.2, ha] at hv; cases hv
        · obtain ⟨v3, hv3⟩ := d5 i j hh hc
          rw [hv3] at hv; cases hv; exact hrc ⟨rfl, rfl⟩
      exact ⟨v'', by simp only [hnin, if_false]; exact hv⟩
  · intro i j v' hs
    by_cases hin : inBlock r c h w i j
    · simp [hin] at hs
    · simp only [hin, if_false] at hs
      obtain ⟨k, w', h', v'', hanc, hin', _⟩ := hinv.spillOk i j r c v' hs
      rw [ha] at hanc; cases hanc; exact hin hin'

/-- models `reset_dynamic_array_spills` on one anchor -/
theorem resetOne_inv (B : Bounds) (unev : V) (g : Grid V) (r c : Nat) (hinv : SpillInv B g) :
    SpillInv B (resetOne unev g r c) := by
  unfold resetOne
  split
  · rename_i w h v ha
    obtain ⟨d1, d2, d3, d4, d5⟩ := hinv.dynOk r c w h v ha
    -- the cleared grid satisfies the "except" invariant, then a 1×1 anchor is written
    apply set11_inv
    refine ⟨?_, ?_, ?_, ⟨w, h, v, by simp [clearBlockExceptCorner, ha]⟩, by omega⟩
    · intro i j ar ac v' hs
      by_cases hin : inBlock r c h w i j ∧ ¬(i = r ∧ j = c)
      · simp [clearBlockExceptCorner, hin] at hs
      · simp only [clearBlockExceptCorner, hin, if_false] at hs
        obtain ⟨k, w', h', v'', hanc, hin', hne⟩ := hinv.spillOk i j ar ac v' hs
        have hout : ¬(inBlock r c h w ar ac ∧ ¬(ar = r ∧ ac = c)) := by
          intro hh
          obtain ⟨v3, hv3⟩ := d5 ar ac hh.1 hh.2
          rw [hv3] at hanc; cases hanc
        exact ⟨k, w', h', v'', by simp only [clearBlockExceptCorner, hout, if_false]; exact hanc,
          hin', hne⟩
    · intro r' c' w' h' v' hanc hrc
      by_cases hin : inBlock r c h w r' c' ∧ ¬(r' = r ∧ c' = c)
      · simp [clearBlockExceptCorner, hin] at hanc
      · simp only [clearBlockExceptCorner, hin, if_false] at hanc
        obtain ⟨h1, h2, h3, h4, h5⟩ := hinv.dynOk r' c' w' h' v' hanc
        refine ⟨h1, h2, h3, h4, ?_⟩
        intro i j hin' hne
        obtain ⟨v'', hv⟩ := h5 i j hin' hne
        have hnin : ¬(inBlock r c h w i j ∧ ¬(i = r ∧ j = c)) := by
          intro hh
          obtain ⟨v3, hv3⟩ := d5 i j hh.1 hh.2
          rw [hv3] at hv; cases hv; exact hrc ⟨rfl, rfl⟩
        exact ⟨v'', by simp only [clearBlockExceptCorner, hnin, if_false]; exact hv⟩
    · intro i j v' hs
      by_cases hin : inBlock r c h w i j ∧ ¬(i = r ∧ j = c)
      · simp [clearBlockExceptCorner, hin] at hs
      · simp only [clearBlockExceptCorner, hin, if_false] at hs
        obtain ⟨k, w', h', v'', hanc, hin', hne⟩ := hinv.spillOk i j r c v' hs
        rw [ha] at hanc; cases hanc
        exact hin ⟨hin', hne⟩
  · exact hinv

theorem resetSpills_inv (B : Bounds) (unev : V) (anchors : List (Nat × Nat)) :
    ∀ g : Grid V, SpillInv B g → SpillInv B (resetSpills unev g anchors) := by
  induction anchors with
  | nil => intro g h; exact h
  | cons p ps ih =>
    intro g h
    exact ih _ (resetOne_inv B unev g p.1 p.2 h)

end IronCalc.Spill
