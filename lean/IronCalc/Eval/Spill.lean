/-
  M-Eval / Spill — how dynamic-array results are written into, and removed from, the grid.

  One worksheet; a cell is `empty | plain | formula | anchor kind (w,h) | spill (anchor)`.
  Values are an abstract type `V` (the theorems are about WHICH cells are written and with
  WHICH element of the result, not about arithmetic); `Vals` names the two error values the
  writer itself produces.

  Modelled functions (base/src/model.rs unless said otherwise):
    `clearOwn`      — the pre-clear at the top of `evaluate_cell` for a Dynamic anchor
    `writeDyn`      — `set_cells_with_result`, the paths taken by a Dynamic anchor
                      (zero-size array → #CALC!, out of grid → #SPILL!, blocked → #SPILL!,
                       otherwise the block is written; scalar result → r = (1,1))
    `evalDyn`       — the two together, as `evaluate_cell` runs them
    `resetSpills`   — `reset_dynamic_array_spills`
    `prepareInput`  — `prepare_cell_for_user_input`
    `setPlain` / `setFormula` / `setDyn` / `clearCell` — `set_user_input` after preparation
  No Mathlib.
-/
namespace IronCalc.Spill

inductive Kind where
  | dyn | cse
  deriving DecidableEq, Repr

/-- models base/src/types.rs::Cell, by kind -/
inductive GCell (V : Type) where
  | empty                                   -- no cell / EmptyCell
  | plain (v : V)                           -- Number/Boolean/Error/SharedString cell
  | formula (v : V)                         -- CellFormula
  | anchor (k : Kind) (w h : Nat) (v : V)   -- ArrayFormula { r = (w,h), kind }
  | spill (ar ac : Nat) (v : V)             -- SpillCell { a = (ar,ac) }
  deriving DecidableEq, Repr

abbrev Grid (V : Type) := Nat → Nat → GCell V

/-- LAST_ROW / LAST_COLUMN -/
structure Bounds where
  maxR : Nat
  maxC : Nat

structure Vals (V : Type) where
  spillErr : V
  calcErr : V

/-- an array result: `h` rows, `w` columns, 0-based element access -/
structure Arr (V : Type) where
  h : Nat
  w : Nat
  get : Nat → Nat → V

inductive Result (V : Type) where
  | scalar (v : V)
  | array (a : Arr V)

variable {V : Type}

def set (g : Grid V) (r c : Nat) (x : GCell V) : Grid V :=
  fun i j => if i = r ∧ j = c then x else g i j

/-- (i,j) lies in the `h`×`w` block whose top-left corner is (r,c) -/
def inBlock (r c h w i j : Nat) : Prop := r ≤ i ∧ i < r + h ∧ c ≤ j ∧ j < c + w

instance (r c h w i j : Nat) : Decidable (inBlock r c h w i j) := by
  unfold inBlock; infer_instance

/-- the blocking test of `set_cells_with_result`: anything but an empty cell or a spill cell
    of this very anchor blocks -/
def blockingCell (r c : Nat) : GCell V → Bool
  | .empty => false
  | .spill ar ac _ => !(ar == r && ac == c)
  | _ => true

def blocked (g : Grid V) (r c h w : Nat) : Bool :=
  (List.range h).any fun di => (List.range w).any fun dj =>
    !(di == 0 && dj == 0) && blockingCell r c (g (r + di) (c + dj))

def isOwnSpill (r c : Nat) : GCell V → Bool
  | .spill ar ac _ => ar == r && ac == c
  | _ => false

/-- models the pre-clear in `evaluate_cell`: own spill cells inside the stored range go away -/
def clearOwn (g : Grid V) (r c w h : Nat) : Grid V :=
  fun i j =>
    if inBlock r c h w i j ∧ ¬(i = r ∧ j = c) ∧ isOwnSpill r c (g i j) = true then .empty else g i j

def outOfGrid (B : Bounds) (r c h w : Nat) : Bool :=
  decide (r + h - 1 > B.maxR) || decide (c + w - 1 > B.maxC)

/-- models `set_cells_with_result` for a Dynamic anchor at (r,c) -/
def writeDyn (B : Bounds) (vals : Vals V) (g : Grid V) (r c : Nat) : Result V → Grid V
  | .scalar v => set g r c (.anchor .dyn 1 1 v)
  | .array a =>
    if a.h = 0 ∨ a.w = 0 then set g r c (.anchor .dyn 1 1 vals.calcErr)
    else if outOfGrid B r c a.h a.w = true ∨ blocked g r c a.h a.w = true then
      set g r c (.anchor .dyn 1 1 vals.spillErr)
    else
      fun i j =>
        if inBlock r c a.h a.w i j then
          if i = r ∧ j = c then .anchor .dyn a.w a.h (a.get 0 0)
          else .spill r c (a.get (i - r) (j - c))
        else g i j

/-- models `evaluate_cell` on a Dynamic anchor whose formula produced `res` -/
def evalDyn (B : Bounds) (vals : Vals V) (g : Grid V) (r c : Nat) (res : Result V) : Grid V :=
  match g r c with
  | .anchor .dyn w h _ => writeDyn B vals (clearOwn g r c w h) r c res
  | _ => g

/-- clear a block except its corner (the loops of `reset_dynamic_array_spills` and of the
    SpillDynamic arm of `prepare_cell_for_user_input`: `cell_clear_contents` on every cell) -/
def clearBlockExceptCorner (g : Grid V) (r c w h : Nat) : Grid V :=
  fun i j => if inBlock r c h w i j ∧ ¬(i = r ∧ j = c) then .empty else g i j

/-- models `reset_dynamic_array_spills` for ONE anchor; `resetSpills` folds it over a list -/
def resetOne (unev : V) (g : Grid V) (r c : Nat) : Grid V :=
  match g r c with
  | .anchor .dyn w h _ => set (clearBlockExceptCorner g r c w h) r c (.anchor .dyn 1 1 unev)
  | _ => g

def resetSpills (unev : V) (g : Grid V) (anchors : List (Nat × Nat)) : Grid V :=
  anchors.foldl (fun g p => resetOne unev g p.1 p.2) g

/-- models `prepare_cell_for_user_input`; `none` = the write is refused -/
def prepareInput (unev : V) (g : Grid V) (r c : Nat) : Option (Grid V) :=
  match g r c with
  | .anchor .cse w h _ => if w > 1 ∨ h > 1 then none else some g
  | .anchor .dyn w h _ =>
    -- the whole block, anchor included, is cleared
    some (fun i j => if inBlock r c h w i j then .empty else g i j)
  | .spill ar ac _ =>
    match g ar ac with
    | .anchor .cse _ _ _ => none
    | .anchor .dyn w h _ =>
      some (set (clearBlockExceptCorner g ar ac w h) ar ac (.anchor .dyn 1 1 unev))
    | _ => none            -- "Spill cell does not reference an array formula"
  | _ => some g

/-- models `set_user_input`: prepare, then write the new content of the one cell -/
def userSet (unev : V) (g : Grid V) (r c : Nat) (x : GCell V) : Option (Grid V) :=
  (prepareInput unev g r c).map fun g1 => set g1 r c x

/-- models `set_user_array_formula` (formula case): the anchor cell is prepared like any user
    input; the anchor becomes a fixed-range (CSE) array formula; EVERY other cell of the declared
    range is overwritten with a placeholder (an ordinary empty text), whatever it held -/
def userSetCse (unev : V) (g : Grid V) (r c w h : Nat) : Option (Grid V) :=
  (prepareInput unev g r c).map fun g1 => fun i j =>
    if inBlock r c h w i j then
      if i = r ∧ j = c then .anchor .cse w h unev else .plain unev
    else g1 i j

/-- models `set_cells_with_result` for a CSE anchor: every cell of the DECLARED range is
    overwritten (no blocking test), the anchor keeps its range -/
def evalCse (g : Grid V) (r c : Nat) (v : V) : Grid V :=
  match g r c with
  | .anchor .cse w h _ => fun i j =>
    if inBlock r c h w i j then
      if i = r ∧ j = c then .anchor .cse w h v else .spill r c v
    else g i j
  | _ => g

end IronCalc.Spill
