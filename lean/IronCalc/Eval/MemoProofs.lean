import IronCalc.Eval.Memo
/-
  Helper lemmas for C05 (and `evaluate_idempotent` of C07): the invariant of the memoising
  evaluator.  See DESIGN.md section 7, C05, for the plan; the formulation used here:

  * `Ext s t`  — `t` is reachable from `s` by evaluator steps: evaluated cells keep mark and
    value, evaluating cells stay evaluating (and no new ones remain), hits only grow, `oof` sticks.
  * `Fut s t`  — the part of `Ext` that later readers rely on (evaluated cells, hits).
  * `G s`      — every hit cell that is evaluated holds `#CIRC!`  (the "assumption" on stack cells,
    discharged when the cell is popped).
  * `Inv s`    — every evaluated formula cell is consistent in EVERY future `t` satisfying `G`,
    w.r.t. the store `lookupC t` in which non-evaluated formula cells count as `#CIRC!`.
-/
namespace IronCalc.Memo

variable {N : Type}

/-! ### generic facts about `evalExpr` / `sumLoop` -/

theorem sumLoop_rel {S : Type} (ops : NumOps N) (rd : Coord → S → Val N × S) (R : S → S → Prop)
    (hrefl : ∀ s, R s s) (htrans : ∀ a b c, R a b → R b c → R a c)
    (hrd : ∀ c s, R s (rd c s).2) :
    ∀ cs acc s, R s (sumLoop ops rd cs acc s).2 := by
  intro cs
  induction cs with
  | nil => intro acc s; exact hrefl s
  | cons c cs ih =>
    intro acc s
    simp only [sumLoop]
    split
    · exact htrans _ _ _ (hrd c s) (ih _ _)
    · exact hrd c s
    · exact htrans _ _ _ (hrd c s) (ih _ _)

/-- a reflexive–transitive relation respected by every read is respected by evaluation -/
theorem evalExpr_rel {S : Type} (ops : NumOps N) (rd : Coord → S → Val N × S) (R : S → S → Prop)
    (hrefl : ∀ s, R s s) (htrans : ∀ a b c, R a b → R b c → R a c)
    (hrd : ∀ c s, R s (rd c s).2) :
    ∀ e s, R s (evalExpr ops rd e s).2 := by
  intro e
  induction e with
  | lit v => intro s; exact hrefl s
  | ref c => intro s; exact hrd c s
  | bin op l r ihl ihr =>
    intro s
    simp only [evalExpr]
    split
    · exact ihl s
    · split
      · exact htrans _ _ _ (ihl s) (ihr _)
      · exact htrans _ _ _ (ihl s) (ihr _)
  | iff c t e ihc iht ihe =>
    intro s
    simp only [evalExpr]
    split
    · exact ihc s
    · exact htrans _ _ _ (ihc s) (iht _)
    · exact htrans _ _ _ (ihc s) (ihe _)
  | iferror a b iha ihb =>
    intro s
    simp only [evalExpr]
    split
    · exact htrans _ _ _ (iha s) (ihb _)
    · exact iha s
  | iserror a iha =>
    intro s
    simp only [evalExpr]
    split
    · exact iha s
    · exact iha s
  | sum cs =>
    intro s
    simp only [evalExpr]
    exact sumLoop_rel ops rd R hrefl htrans hrd cs _ s

/-! ### unfolding `pureEval` -/

theorem pureEval_lit (ops : NumOps N) (env : Coord → Val N) (v : Val N) :
    pureEval ops env (.lit v) = v := rfl

theorem pureEval_ref (ops : NumOps N) (env : Coord → Val N) (c : Coord) :
    pureEval ops env (.ref c) = env c := rfl

theorem pureEval_bin (ops : NumOps N) (env : Coord → Val N) (op : Op) (l r : Expr N) :
    pureEval ops env (.bin op l r) =
      match toNum ops (pureEval ops env l) with
      | .error e => .err e
      | .ok x =>
        match toNum ops (pureEval ops env r) with
        | .error e => .err e
        | .ok y => arith ops op x y := by
  simp only [pureEval, evalExpr]
  split <;> rename_i h <;> simp only [h]
  split <;> rename_i h2 <;> simp only [h2]

theorem pureEval_iff (ops : NumOps N) (env : Coord → Val N) (c t e : Expr N) :
    pureEval ops env (.iff c t e) =
      match toBool ops (pureEval ops env c) with
      | .error x => .err x
      | .ok true => pureEval ops env t
      | .ok false => pureEval ops env e := by
  simp only [pureEval, evalExpr]
  split <;> rename_i h <;> simp only [h]

theorem pureEval_iferror (ops : NumOps N) (env : Coord → Val N) (a b : Expr N) :
    pureEval ops env (.iferror a b) =
      match pureEval ops env a with
      | .err _ => pureEval ops env b
      | v => v := by
  simp only [pureEval, evalExpr]
  split <;> rename_i h <;> simp only [h]

theorem pureEval_iserror (ops : NumOps N) (env : Coord → Val N) (a : Expr N) :
    pureEval ops env (.iserror a) =
      match pureEval ops env a with
      | .err _ => .bool true
      | _ => .bool false := by
  simp only [pureEval, evalExpr]
  split <;> rename_i h <;> simp only [h]

/-! ### the relations between evaluator states -/

structure Ext (s t : St N) : Prop where
  evald : ∀ d, s.mark d = some .evaluated → t.mark d = some .evaluated ∧ t.val d = s.val d
  evaling : ∀ d, s.mark d = some .evaluating → t.mark d = some .evaluating
  back : ∀ d, t.mark d = some .evaluating → s.mark d = some .evaluating
  hits : ∃ l, t.hits = l ++ s.hits
  oof : s.oof = true → t.oof = true

theorem Ext.refl (s : St N) : Ext s s :=
  ⟨fun _ h => ⟨h, rfl⟩, fun _ h => h, fun _ h => h, ⟨[], rfl⟩, fun h => h⟩

theorem Ext.trans {a b c : St N} (h1 : Ext a b) (h2 : Ext b c) : Ext a c := by
  refine ⟨?_, ?_, ?_, ?_, ?_⟩
  · intro d hd
    obtain ⟨m1, v1⟩ := h1.evald d hd
    obtain ⟨m2, v2⟩ := h2.evald d m1
    exact ⟨m2, v2.trans v1⟩
  · intro d hd; exact h2.evaling d (h1.evaling d hd)
  · intro d hd; exact h1.back d (h2.back d hd)
  · obtain ⟨l1, e1⟩ := h1.hits
    obtain ⟨l2, e2⟩ := h2.hits
    exact ⟨l2 ++ l1, by rw [e2, e1, List.append_assoc]⟩
  · intro h; exact h2.oof (h1.oof h)

theorem Ext.marked {s t : St N} (h : Ext s t) (d : Coord) (hd : s.mark d ≠ none) :
    t.mark d ≠ none := by
  cases hm : s.mark d with
  | none => exact absurd hm hd
  | some m =>
    cases m with
    | evaluating => rw [h.evaling d hm]; simp
    | evaluated => rw [(h.evald d hm).1]; simp

theorem Ext.hits_mem {s t : St N} (h : Ext s t) (x : Coord) (hx : x ∈ s.hits) : x ∈ t.hits := by
  obtain ⟨l, e⟩ := h.hits
  rw [e]; exact List.mem_append_right l hx

theorem Ext.hits_nil {s t : St N} (h : Ext s t) (ht : t.hits = []) : s.hits = [] := by
  obtain ⟨l, e⟩ := h.hits
  rw [ht] at e
  exact (List.append_eq_nil_iff.mp e.symm).2

theorem Ext.oof_false {s t : St N} (h : Ext s t) (ht : t.oof = false) : s.oof = false := by
  cases hs : s.oof with
  | false => rfl
  | true => rw [h.oof hs] at ht; exact absurd ht (by simp)

/-- what later readers rely on -/
structure Fut (s t : St N) : Prop where
  evald : ∀ d, s.mark d = some .evaluated → t.mark d = some .evaluated ∧ t.val d = s.val d
  hits : ∀ x, x ∈ s.hits → x ∈ t.hits

theorem Fut.refl (s : St N) : Fut s s := ⟨fun _ h => ⟨h, rfl⟩, fun _ h => h⟩

theorem Fut.trans {a b c : St N} (h1 : Fut a b) (h2 : Fut b c) : Fut a c := by
  refine ⟨?_, fun x hx => h2.hits x (h1.hits x hx)⟩
  intro d hd
  obtain ⟨m1, v1⟩ := h1.evald d hd
  obtain ⟨m2, v2⟩ := h2.evald d m1
  exact ⟨m2, v2.trans v1⟩

theorem Ext.fut {s t : St N} (h : Ext s t) : Fut s t := ⟨h.evald, h.hits_mem⟩

/-- every hit cell that is (already) evaluated holds `#CIRC!` -/
def G (s : St N) : Prop :=
  ∀ x, x ∈ s.hits → s.mark x = some .evaluated → s.val x = .err .circ

/-- hit cells are marked -/
def HM (s : St N) : Prop := ∀ x, x ∈ s.hits → s.mark x ≠ none

/-- the store in which formula cells that are not (yet) evaluated count as `#CIRC!` -/
def lookupC (wb : Coord → Cell N) (s : St N) (c : Coord) : Val N :=
  match wb c with
  | .empty => .empty
  | .plain v => v
  | .formula _ => if s.mark c = some .evaluated then s.val c else .err .circ

def Inv (ops : NumOps N) (wb : Coord → Cell N) (s : St N) : Prop :=
  ∀ d e, wb d = .formula e → s.mark d = some .evaluated →
    ∀ t, Fut s t → G t → t.val d = store ops (pureEval ops (lookupC wb t) e)

structure Good (ops : NumOps N) (wb : Coord → Cell N) (s : St N) : Prop where
  inv : Inv ops wb s
  g : G s
  hm : HM s

def AllStrict (wb : Coord → Cell N) : Prop := ∀ c e, wb c = .formula e → e.strict = true

/-- the outcome we reason about: fuel did not run out, and either no formula traps errors
    or no read ever found an `Evaluating` cell -/
def Cond (wb : Coord → Cell N) (s : St N) : Prop :=
  s.oof = false ∧ (AllStrict wb ∨ s.hits = [])

theorem Cond.back {wb : Coord → Cell N} {s t : St N} (h : Ext s t) (hc : Cond wb t) : Cond wb s :=
  ⟨h.oof_false hc.1, hc.2.imp id h.hits_nil⟩

/-- what the main lemma establishes for a read callback -/
structure RdOK (ops : NumOps N) (wb : Coord → Cell N) (rd : Coord → St N → Val N × St N) :
    Prop where
  ext : ∀ c s, Ext s (rd c s).2
  good : ∀ c s, Good ops wb s → Cond wb (rd c s).2 → Good ops wb (rd c s).2
  circ : ∀ c s, Good ops wb s → Cond wb (rd c s).2 → (rd c s).2.hits ≠ s.hits →
    (rd c s).1 = .err .circ
  sim : ∀ c s, Good ops wb s → Cond wb (rd c s).2 →
    ∀ t, Fut (rd c s).2 t → G t → lookupC wb t c = (rd c s).1

theorem evalExpr_ext (ops : NumOps N) (rd : Coord → St N → Val N × St N)
    (h : ∀ c s, Ext s (rd c s).2) (e : Expr N) (s : St N) : Ext s (evalExpr ops rd e s).2 :=
  evalExpr_rel ops rd Ext Ext.refl (fun _ _ _ => Ext.trans) h e s

theorem sumLoop_ext (ops : NumOps N) (rd : Coord → St N → Val N × St N)
    (h : ∀ c s, Ext s (rd c s).2) (cs : List Coord) (acc : N) (s : St N) :
    Ext s (sumLoop ops rd cs acc s).2 :=
  sumLoop_rel ops rd Ext Ext.refl (fun _ _ _ => Ext.trans) h cs acc s

/-! ### evaluation of an expression through a good callback -/

/-- the three facts about an evaluation of `e` from `s` with result `(r, s')` -/
structure Out (ops : NumOps N) (wb : Coord → Cell N) (e : Expr N) (s : St N) (r : Val N)
    (s' : St N) : Prop where
  good : Good ops wb s'
  circ : e.strict = true → s'.hits ≠ s.hits → r = .err .circ
  sim : ∀ t, Fut s' t → G t → pureEval ops (lookupC wb t) e = r

theorem pureEval_sum (ops : NumOps N) (env : Coord → Val N) (cs : List Coord) :
    pureEval ops env (.sum cs) = (sumLoop ops (fun c (u : Unit) => (env c, u)) cs ops.zero ()).1 :=
  rfl

theorem sumLoop_ok {ops : NumOps N} {wb : Coord → Cell N} {rd : Coord → St N → Val N × St N}
    (h : RdOK ops wb rd) :
    ∀ cs acc s, Good ops wb s → Cond wb (sumLoop ops rd cs acc s).2 →
      Good ops wb (sumLoop ops rd cs acc s).2 ∧
      ((sumLoop ops rd cs acc s).2.hits ≠ s.hits → (sumLoop ops rd cs acc s).1 = .err .circ) ∧
      (∀ t, Fut (sumLoop ops rd cs acc s).2 t → G t →
        (sumLoop ops (fun c (u : Unit) => (lookupC wb t c, u)) cs acc ()).1
          = (sumLoop ops rd cs acc s).1) := by
  intro cs
  induction cs with
  | nil =>
    intro acc s hg _
    exact ⟨hg, fun hne => absurd rfl hne, fun _ _ _ => rfl⟩
  | cons c cs ih =>
    intro acc s hg hc
    -- the continuing case, for an accumulator `acc'`
    have cont : ∀ acc', sumLoop ops rd (c :: cs) acc s = sumLoop ops rd cs acc' (rd c s).2 →
        (∀ t, lookupC wb t c = (rd c s).1 →
          (sumLoop ops (fun c (u : Unit) => (lookupC wb t c, u)) (c :: cs) acc ()).1 =
          (sumLoop ops (fun c (u : Unit) => (lookupC wb t c, u)) cs acc' ()).1) →
        (rd c s).1 ≠ .err .circ →
        Good ops wb (sumLoop ops rd (c :: cs) acc s).2 ∧
        ((sumLoop ops rd (c :: cs) acc s).2.hits ≠ s.hits →
          (sumLoop ops rd (c :: cs) acc s).1 = .err .circ) ∧
        (∀ t, Fut (sumLoop ops rd (c :: cs) acc s).2 t → G t →
          (sumLoop ops (fun c (u : Unit) => (lookupC wb t c, u)) (c :: cs) acc ()).1
            = (sumLoop ops rd (c :: cs) acc s).1) := by
      intro acc' heq hpure hnc
      rw [heq] at hc ⊢
      have hext := sumLoop_ext ops rd h.ext cs acc' (rd c s).2
      have hc1 : Cond wb (rd c s).2 := Cond.back hext hc
      have hg1 := h.good c s hg hc1
      obtain ⟨g2, c2, s2⟩ := ih acc' (rd c s).2 hg1 hc
      refine ⟨g2, ?_, ?_⟩
      · intro hne
        by_cases h1 : (sumLoop ops rd cs acc' (rd c s).2).2.hits = (rd c s).2.hits
        · have : (rd c s).2.hits ≠ s.hits := by rw [← h1]; exact hne
          exact absurd (h.circ c s hg hc1 this) hnc
        · exact c2 h1
      · intro t ht hG
        have hr := h.sim c s hg hc1 t (hext.fut.trans ht) hG
        rw [hpure t hr]
        exact s2 t ht hG
    cases hv : (rd c s).1 with
    | num n =>
      apply cont (ops.add acc n)
      · simp only [sumLoop, hv]
      · intro t ht; simp only [sumLoop, ht, hv]
      · rw [hv]; simp
    | err e =>
      have heq : sumLoop ops rd (c :: cs) acc s = (.err e, (rd c s).2) := by
        simp only [sumLoop, hv]
      rw [heq] at hc ⊢
      refine ⟨h.good c s hg hc, ?_, ?_⟩
      · intro hne
        have := h.circ c s hg hc hne
        rw [hv] at this; exact this
      · intro t ht hG
        have hr := h.sim c s hg hc t ht hG
        simp only [sumLoop, hr, hv]
    | str x =>
      apply cont acc
      · simp only [sumLoop, hv]
      · intro t ht; simp only [sumLoop, ht, hv]
      · rw [hv]; simp
    | bool x =>
      apply cont acc
      · simp only [sumLoop, hv]
      · intro t ht; simp only [sumLoop, ht, hv]
      · rw [hv]; simp
    | empty =>
      apply cont acc
      · simp only [sumLoop, hv]
      · intro t ht; simp only [sumLoop, ht, hv]
      · rw [hv]; simp

theorem hits_ne_split {a b c : St N} (h : c.hits ≠ a.hits) : b.hits ≠ a.hits ∨ c.hits ≠ b.hits := by
  by_cases h1 : b.hits = a.hits
  · right; rw [h1]; exact h
  · left; exact h1

theorem toNum_circ (ops : NumOps N) : toNum ops (.err .circ : Val N) = .error .circ := rfl
theorem toBool_circ (ops : NumOps N) : toBool ops (.err .circ : Val N) = .error .circ := rfl

theorem evalExpr_ok {ops : NumOps N} {wb : Coord → Cell N} {rd : Coord → St N → Val N × St N}
    (h : RdOK ops wb rd) :
    ∀ e s, Good ops wb s → Cond wb (evalExpr ops rd e s).2 →
      Out ops wb e s (evalExpr ops rd e s).1 (evalExpr ops rd e s).2 := by
  intro e
  induction e with
  | lit v =>
    intro s hg _
    exact ⟨hg, fun _ hne => absurd rfl hne, fun _ _ _ => rfl⟩
  | ref c =>
    intro s hg hc
    exact ⟨h.good c s hg hc, fun _ hne => h.circ c s hg hc hne,
      fun t ht hG => h.sim c s hg hc t ht hG⟩
  | bin op l r ihl ihr =>
    intro s hg hc
    have extL := evalExpr_ext ops rd h.ext l s
    cases hL : toNum ops (evalExpr ops rd l s).1 with
    | error e =>
      have heq : evalExpr ops rd (.bin op l r) s = (.err e, (evalExpr ops rd l s).2) := by
        simp only [evalExpr, hL]
      rw [heq] at hc ⊢
      have oL := ihl s hg hc
      refine ⟨oL.good, ?_, ?_⟩
      · intro hs hne
        simp only [Expr.strict, Bool.and_eq_true] at hs
        have := oL.circ hs.1 hne
        rw [this, toNum_circ] at hL
        cases hL; rfl
      · intro t ht hG
        rw [pureEval_bin, oL.sim t ht hG, hL]
    | ok x =>
      have extR := evalExpr_ext ops rd h.ext r (evalExpr ops rd l s).2
      cases hR : toNum ops (evalExpr ops rd r (evalExpr ops rd l s).2).1 with
      | error e =>
        have heq : evalExpr ops rd (.bin op l r) s =
            (.err e, (evalExpr ops rd r (evalExpr ops rd l s).2).2) := by
          simp only [evalExpr, hL, hR]
        rw [heq] at hc ⊢
        have oL := ihl s hg (Cond.back extR hc)
        have oR := ihr _ oL.good hc
        refine ⟨oR.good, ?_, ?_⟩
        · intro hs hne
          simp only [Expr.strict, Bool.and_eq_true] at hs
          rcases hits_ne_split (b := (evalExpr ops rd l s).2) hne with h1 | h1
          · have := oL.circ hs.1 h1
            rw [this, toNum_circ] at hL; cases hL
          · have := oR.circ hs.2 h1
            rw [this, toNum_circ] at hR; cases hR; rfl
        · intro t ht hG
          rw [pureEval_bin, oL.sim t (extR.fut.trans ht) hG, hL]
          simp only
          rw [oR.sim t ht hG, hR]
      | ok y =>
        have heq : evalExpr ops rd (.bin op l r) s =
            (arith ops op x y, (evalExpr ops rd r (evalExpr ops rd l s).2).2) := by
          simp only [evalExpr, hL, hR]
        rw [heq] at hc ⊢
        have oL := ihl s hg (Cond.back extR hc)
        have oR := ihr _ oL.good hc
        refine ⟨oR.good, ?_, ?_⟩
        · intro hs hne
          simp only [Expr.strict, Bool.and_eq_true] at hs
          rcases hits_ne_split (b := (evalExpr ops rd l s).2) hne with h1 | h1
          · have := oL.circ hs.1 h1
            rw [this, toNum_circ] at hL; cases hL
          · have := oR.circ hs.2 h1
            rw [this, toNum_circ] at hR; cases hR
        · intro t ht hG
          rw [pureEval_bin, oL.sim t (extR.fut.trans ht) hG, hL]
          simp only
          rw [oR.sim t ht hG, hR]
  | iff c t e ihc iht ihe =>
    intro s hg hc
    cases hC : toBool ops (evalExpr ops rd c s).1 with
    | error x =>
      have heq : evalExpr ops rd (.iff c t e) s = (.err x, (evalExpr ops rd c s).2) := by
        simp only [evalExpr, hC]
      rw [heq] at hc ⊢
      have oC := ihc s hg hc
      refine ⟨oC.good, ?_, ?_⟩
      · intro hs hne
        simp only [Expr.strict, Bool.and_eq_true] at hs
        have := oC.circ hs.1.1 hne
        rw [this, toBool_circ] at hC
        cases hC; rfl
      · intro u hu hG
        rw [pureEval_iff, oC.sim u hu hG, hC]
    | ok b =>
      cases b with
      | true =>
        have heq : evalExpr ops rd (.iff c t e) s = evalExpr ops rd t (evalExpr ops rd c s).2 := by
          simp only [evalExpr, hC]
        rw [heq] at hc ⊢
        have extT := evalExpr_ext ops rd h.ext t (evalExpr ops rd c s).2
        have oC := ihc s hg (Cond.back extT hc)
        have oT := iht _ oC.good hc
        refine ⟨oT.good, ?_, ?_⟩
        · intro hs hne
          simp only [Expr.strict, Bool.and_eq_true] at hs
          rcases hits_ne_split (b := (evalExpr ops rd c s).2) hne with h1 | h1
          · have := oC.circ hs.1.1 h1
            rw [this, toBool_circ] at hC; cases hC
          · exact oT.circ hs.1.2 h1
        · intro u hu hG
          rw [pureEval_iff, oC.sim u (extT.fut.trans hu) hG, hC]
          exact oT.sim u hu hG
      | false =>
        have heq : evalExpr ops rd (.iff c t e) s = evalExpr ops rd e (evalExpr ops rd c s).2 := by
          simp only [evalExpr, hC]
        rw [heq] at hc ⊢
        have extE := evalExpr_ext ops rd h.ext e (evalExpr ops rd c s).2
        have oC := ihc s hg (Cond.back extE hc)
        have oE := ihe _ oC.good hc
        refine ⟨oE.good, ?_, ?_⟩
        · intro hs hne
          simp only [Expr.strict, Bool.and_eq_true] at hs
          rcases hits_ne_split (b := (evalExpr ops rd c s).2) hne with h1 | h1
          · have := oC.circ hs.1.1 h1
            rw [this, toBool_circ] at hC; cases hC
          · exact oE.circ hs.2 h1
        · intro u hu hG
          rw [pureEval_iff, oC.sim u (extE.fut.trans hu) hG, hC]
          exact oE.sim u hu hG
  | iferror a b iha ihb =>
    intro s hg hc
    by_cases hA : ∃ x, (evalExpr ops rd a s).1 = .err x
    · obtain ⟨x, hx⟩ := hA
      have heq : evalExpr ops rd (.iferror a b) s = evalExpr ops rd b (evalExpr ops rd a s).2 := by
        simp only [evalExpr, hx]
      rw [heq] at hc ⊢
      have extB := evalExpr_ext ops rd h.ext b (evalExpr ops rd a s).2
      have oA := iha s hg (Cond.back extB hc)
      have oB := ihb _ oA.good hc
      refine ⟨oB.good, fun hs => by simp [Expr.strict] at hs, ?_⟩
      intro u hu hG
      rw [pureEval_iferror, oA.sim u (extB.fut.trans hu) hG, hx]
      exact oB.sim u hu hG
    · have heq : evalExpr ops rd (.iferror a b) s =
          ((evalExpr ops rd a s).1, (evalExpr ops rd a s).2) := by
        simp only [evalExpr]
        split
        · rename_i x hx; exact absurd ⟨x, hx⟩ hA
        · rfl
      rw [heq] at hc ⊢
      have oA := iha s hg hc
      refine ⟨oA.good, fun hs => by simp [Expr.strict] at hs, ?_⟩
      intro u hu hG
      rw [pureEval_iferror, oA.sim u hu hG]
      split
      · rename_i x hx; exact absurd ⟨x, hx⟩ hA
      · rfl
  | iserror a iha =>
    intro s hg hc
    by_cases hA : ∃ x, (evalExpr ops rd a s).1 = .err x
    · obtain ⟨x, hx⟩ := hA
      have heq : evalExpr ops rd (.iserror a) s = (.bool true, (evalExpr ops rd a s).2) := by
        simp only [evalExpr, hx]
      rw [heq] at hc ⊢
      have oA := iha s hg hc
      refine ⟨oA.good, fun hs => by simp [Expr.strict] at hs, ?_⟩
      intro u hu hG
      rw [pureEval_iserror, oA.sim u hu hG, hx]
    · have heq : evalExpr ops rd (.iserror a) s = (.bool false, (evalExpr ops rd a s).2) := by
        simp only [evalExpr]
        split
        · rename_i x hx; exact absurd ⟨x, hx⟩ hA
        · rfl
      rw [heq] at hc ⊢
      have oA := iha s hg hc
      refine ⟨oA.good, fun hs => by simp [Expr.strict] at hs, ?_⟩
      intro u hu hG
      rw [pureEval_iserror, oA.sim u hu hG]
      split
      · rename_i x hx; exact absurd ⟨x, hx⟩ hA
      · rfl
  | sum cs =>
    intro s hg hc
    have heq : evalExpr ops rd (.sum cs) s = sumLoop ops rd cs ops.zero s := by
      simp only [evalExpr]
    rw [heq] at hc ⊢
    obtain ⟨g, c, sm⟩ := sumLoop_ok h cs ops.zero s hg hc
    exact ⟨g, fun _ hne => c hne, fun t ht hG => by rw [pureEval_sum]; exact sm t ht hG⟩

/-! ### the main lemma: `evalCell` is a good callback, by induction on the fuel -/

theorem evalCell_zero (ops : NumOps N) (wb : Coord → Cell N) (c : Coord) (s : St N) :
    evalCell ops wb 0 c s = (.err .error, { s with oof := true }) := rfl

theorem evalCell_empty (ops : NumOps N) (wb : Coord → Cell N) (fuel : Nat) (c : Coord) (s : St N)
    (h : wb c = .empty) : evalCell ops wb (fuel + 1) c s = (.empty, s) := by
  simp only [evalCell, h]

theorem evalCell_plain (ops : NumOps N) (wb : Coord → Cell N) (fuel : Nat) (c : Coord) (s : St N)
    (v : Val N) (h : wb c = .plain v) : evalCell ops wb (fuel + 1) c s = (v, s) := by
  simp only [evalCell, h]

theorem evalCell_evaluating (ops : NumOps N) (wb : Coord → Cell N) (fuel : Nat) (c : Coord)
    (s : St N) (e : Expr N) (h : wb c = .formula e) (hm : s.mark c = some .evaluating) :
    evalCell ops wb (fuel + 1) c s = (.err .circ, { s with hits := c :: s.hits }) := by
  simp only [evalCell, h, hm]

theorem evalCell_evaluated (ops : NumOps N) (wb : Coord → Cell N) (fuel : Nat) (c : Coord)
    (s : St N) (e : Expr N) (h : wb c = .formula e) (hm : s.mark c = some .evaluated) :
    evalCell ops wb (fuel + 1) c s = (s.val c, s) := by
  simp only [evalCell, h, hm]

theorem evalCell_none (ops : NumOps N) (wb : Coord → Cell N) (fuel : Nat) (c : Coord)
    (s : St N) (e : Expr N) (h : wb c = .formula e) (hm : s.mark c = none) :
    evalCell ops wb (fuel + 1) c s =
      (store ops (evalExpr ops (evalCell ops wb fuel) e (s.setMark c .evaluating)).1,
       (evalExpr ops (evalCell ops wb fuel) e (s.setMark c .evaluating)).2.finish c
         (store ops (evalExpr ops (evalCell ops wb fuel) e (s.setMark c .evaluating)).1)) := by
  simp only [evalCell, h, hm]

theorem store_circ (ops : NumOps N) : store ops (.err .circ : Val N) = .err .circ := rfl

theorem lookupC_formula (wb : Coord → Cell N) (s : St N) (c : Coord) (e : Expr N)
    (h : wb c = .formula e) :
    lookupC wb s c = if s.mark c = some .evaluated then s.val c else .err .circ := by
  simp only [lookupC, h]

/-- entering a cell: `s.setMark c .evaluating` when `c` was unmarked -/
theorem good_enter {ops : NumOps N} {wb : Coord → Cell N} {s : St N} {c : Coord}
    (hg : Good ops wb s) (hm : s.mark c = none) : Good ops wb (s.setMark c .evaluating) := by
  have hfut : ∀ t, Fut (s.setMark c .evaluating) t → Fut s t := by
    intro t ht
    refine ⟨?_, ht.hits⟩
    intro d hd
    have hdc : d ≠ c := by intro h; rw [h, hm] at hd; cases hd
    have : (s.setMark c .evaluating).mark d = some .evaluated := by
      simp only [St.setMark, hdc, if_false]; exact hd
    exact ht.evald d this
  refine ⟨?_, ?_, ?_⟩
  · intro d e hw hd t ht hG
    have hdc : d ≠ c := by
      intro h; rw [h] at hd; simp [St.setMark] at hd
    have hd' : s.mark d = some .evaluated := by
      simpa [St.setMark, hdc] using hd
    exact hg.inv d e hw hd' t (hfut t ht) hG
  · intro x hx hmx
    have hxc : x ≠ c := by
      intro h; rw [h] at hmx; simp [St.setMark] at hmx
    have : s.mark x = some .evaluated := by simpa [St.setMark, hxc] using hmx
    exact hg.g x hx this
  · intro x hx
    by_cases hxc : x = c
    · simp [St.setMark, hxc]
    · simpa [St.setMark, hxc] using hg.hm x hx

theorem evalCell_ext (ops : NumOps N) (wb : Coord → Cell N) :
    ∀ fuel c s, Ext s (evalCell ops wb fuel c s).2 := by
  intro fuel
  induction fuel with
  | zero =>
    intro c s
    rw [evalCell_zero]
    exact ⟨fun _ h => ⟨h, rfl⟩, fun _ h => h, fun _ h => h, ⟨[], rfl⟩, fun _ => rfl⟩
  | succ fuel ih =>
    intro c s
    cases hw : wb c with
    | empty => rw [evalCell_empty ops wb fuel c s hw]; exact Ext.refl s
    | plain v => rw [evalCell_plain ops wb fuel c s v hw]; exact Ext.refl s
    | formula e =>
      cases hm : s.mark c with
      | some m =>
        cases m with
        | evaluating =>
          rw [evalCell_evaluating ops wb fuel c s e hw hm]
          exact ⟨fun _ h => ⟨h, rfl⟩, fun _ h => h, fun _ h => h, ⟨[c], rfl⟩, fun h => h⟩
        | evaluated =>
          rw [evalCell_evaluated ops wb fuel c s e hw hm]; exact Ext.refl s
      | none =>
        rw [evalCell_none ops wb fuel c s e hw hm]
        have hx := evalExpr_ext ops (evalCell ops wb fuel) ih e (s.setMark c .evaluating)
        generalize (evalExpr ops (evalCell ops wb fuel) e (s.setMark c .evaluating)) = p at hx
        refine ⟨?_, ?_, ?_, ?_, ?_⟩
        · intro d hd
          have hdc : d ≠ c := by intro h; rw [h, hm] at hd; cases hd
          have h1 : (s.setMark c .evaluating).mark d = some .evaluated := by
            simpa [St.setMark, hdc] using hd
          obtain ⟨m2, v2⟩ := hx.evald d h1
          simp only [St.finish, hdc, if_false]
          exact ⟨m2, by simpa [St.setMark] using v2⟩
        · intro d hd
          have hdc : d ≠ c := by intro h; rw [h, hm] at hd; cases hd
          have h1 : (s.setMark c .evaluating).mark d = some .evaluating := by
            simpa [St.setMark, hdc] using hd
          simpa [St.finish, hdc] using hx.evaling d h1
        · intro d hd
          have hdc : d ≠ c := by
            intro h; rw [h] at hd; simp [St.finish] at hd
          have h2 : p.2.mark d = some .evaluating := by simpa [St.finish, hdc] using hd
          have := hx.back d h2
          simpa [St.setMark, hdc] using this
        · obtain ⟨l, hl⟩ := hx.hits
          exact ⟨l, by simpa [St.finish, St.setMark] using hl⟩
        · intro h
          have : (s.setMark c .evaluating).oof = true := by simpa [St.setMark] using h
          simpa [St.finish] using hx.oof this

theorem evalCell_ok (ops : NumOps N) (wb : Coord → Cell N) :
    ∀ fuel, RdOK ops wb (evalCell ops wb fuel) := by
  intro fuel
  induction fuel with
  | zero =>
    refine ⟨evalCell_ext ops wb 0, ?_, ?_, ?_⟩
    · intro c s _ hc; rw [evalCell_zero] at hc; exact absurd hc.1 (by simp)
    · intro c s _ hc; rw [evalCell_zero] at hc; exact absurd hc.1 (by simp)
    · intro c s _ hc; rw [evalCell_zero] at hc; exact absurd hc.1 (by simp)
  | succ fuel ih =>
    refine ⟨evalCell_ext ops wb (fuel + 1), ?_, ?_, ?_⟩
    -- Good
    · intro c s hg hc
      cases hw : wb c with
      | empty => rw [evalCell_empty ops wb fuel c s hw]; exact hg
      | plain v => rw [evalCell_plain ops wb fuel c s v hw]; exact hg
      | formula e =>
        cases hm : s.mark c with
        | some m =>
          cases m with
          | evaluating =>
            rw [evalCell_evaluating ops wb fuel c s e hw hm]
            refine ⟨?_, ?_, ?_⟩
            · intro d e' hw' hd t ht hG
              exact hg.inv d e' hw' hd t ⟨ht.evald, fun x hx => ht.hits x (List.mem_cons_of_mem c hx)⟩ hG
            · intro x hx hmx
              rcases List.mem_cons.mp hx with h1 | h1
              · rw [h1] at hmx; rw [hm] at hmx; cases hmx
              · exact hg.g x h1 hmx
            · intro x hx
              rcases List.mem_cons.mp hx with h1 | h1
              · rw [h1]; show s.mark c ≠ none; rw [hm]; simp
              · exact hg.hm x h1
          | evaluated => rw [evalCell_evaluated ops wb fuel c s e hw hm]; exact hg
        | none =>
          rw [evalCell_none ops wb fuel c s e hw hm] at hc ⊢
          have hx := evalExpr_ext ops (evalCell ops wb fuel) ih.ext e (s.setMark c .evaluating)
          have hg1 := good_enter hg hm
          have hc2 : Cond wb (evalExpr ops (evalCell ops wb fuel) e (s.setMark c .evaluating)).2 := by
            exact ⟨by simpa [St.finish] using hc.1, by simpa [St.finish] using hc.2⟩
          have o := evalExpr_ok ih e (s.setMark c .evaluating) hg1 hc2
          have hcev : (evalExpr ops (evalCell ops wb fuel) e (s.setMark c .evaluating)).2.mark c
              = some .evaluating := hx.evaling c (by simp [St.setMark])
          have hcnot : c ∉ s.hits := fun hin => hg.hm c hin hm
          generalize (evalExpr ops (evalCell ops wb fuel) e (s.setMark c .evaluating)) = p
            at hx hc hc2 o hcev ⊢
          -- futures of the final state are futures of p.2
          have hfut : ∀ t, Fut (p.2.finish c (store ops p.1)) t → Fut p.2 t := by
            intro t ht
            refine ⟨?_, fun x hx' => ht.hits x (by simpa [St.finish] using hx')⟩
            intro d hd
            have hdc : d ≠ c := by intro h; rw [h, hcev] at hd; cases hd
            have h1 : (p.2.finish c (store ops p.1)).mark d = some .evaluated := by
              simpa [St.finish, hdc] using hd
            obtain ⟨m2, v2⟩ := ht.evald d h1
            exact ⟨m2, by simpa [St.finish, hdc] using v2⟩
          -- if c was hit, the stored value is #CIRC!
          have hpop : c ∈ p.2.hits → store ops p.1 = .err .circ := by
            intro hin
            have hne : p.2.hits ≠ (s.setMark c .evaluating).hits := by
              intro heq; rw [heq] at hin; exact hcnot (by simpa [St.setMark] using hin)
            rcases hc2.2 with hs | hnil
            · rw [o.circ (hs c e hw) hne]; rfl
            · rw [hnil] at hin; cases hin
          refine ⟨?_, ?_, ?_⟩
          · intro d e' hw' hd t ht hG
            by_cases hdc : d = c
            · subst hdc
              rw [hw] at hw'; cases hw'
              have hv := (ht.evald d (by simp [St.finish])).2
              rw [hv, o.sim t (hfut t ht) hG]
              simp [St.finish]
            · have hd2 : p.2.mark d = some .evaluated := by simpa [St.finish, hdc] using hd
              exact o.good.inv d e' hw' hd2 t (hfut t ht) hG
          · intro x hxin hmx
            have hxin2 : x ∈ p.2.hits := by simpa [St.finish] using hxin
            by_cases hxc : x = c
            · subst hxc
              simp only [St.finish, if_true]
              exact hpop hxin2
            · have hmx2 : p.2.mark x = some .evaluated := by simpa [St.finish, hxc] using hmx
              simpa [St.finish, hxc] using o.good.g x hxin2 hmx2
          · intro x hxin
            have hxin2 : x ∈ p.2.hits := by simpa [St.finish] using hxin
            by_cases hxc : x = c
            · simp [St.finish, hxc]
            · simpa [St.finish, hxc] using o.good.hm x hxin2
    -- circ
    · intro c s hg hc hne
      cases hw : wb c with
      | empty => rw [evalCell_empty ops wb fuel c s hw] at hne; exact absurd rfl hne
      | plain v => rw [evalCell_plain ops wb fuel c s v hw] at hne; exact absurd rfl hne
      | formula e =>
        cases hm : s.mark c with
        | some m =>
          cases m with
          | evaluating => rw [evalCell_evaluating ops wb fuel c s e hw hm]
          | evaluated =>
            rw [evalCell_evaluated ops wb fuel c s e hw hm] at hne; exact absurd rfl hne
        | none =>
          rw [evalCell_none ops wb fuel c s e hw hm] at hc hne ⊢
          have hx := evalExpr_ext ops (evalCell ops wb fuel) ih.ext e (s.setMark c .evaluating)
          have hg1 := good_enter hg hm
          have hc2 : Cond wb (evalExpr ops (evalCell ops wb fuel) e (s.setMark c .evaluating)).2 := by
            exact ⟨by simpa [St.finish] using hc.1, by simpa [St.finish] using hc.2⟩
          have o := evalExpr_ok ih e (s.setMark c .evaluating) hg1 hc2
          generalize (evalExpr ops (evalCell ops wb fuel) e (s.setMark c .evaluating)) = p
            at hx hc hc2 o hne ⊢
          have hne2 : p.2.hits ≠ (s.setMark c .evaluating).hits := by
            simpa [St.finish, St.setMark] using hne
          rcases hc2.2 with hs | hnil
          · show store ops p.1 = .err .circ
            rw [o.circ (hs c e hw) hne2]; rfl
          · exfalso
            apply hne2
            rw [hnil]; exact (hx.hits_nil hnil).symm
    -- sim
    · intro c s hg hc t ht hG
      cases hw : wb c with
      | empty =>
        rw [evalCell_empty ops wb fuel c s hw]; simp only [lookupC, hw]
      | plain v =>
        rw [evalCell_plain ops wb fuel c s v hw]; simp only [lookupC, hw]
      | formula e =>
        rw [lookupC_formula wb t c e hw]
        cases hm : s.mark c with
        | some m =>
          cases m with
          | evaluating =>
            rw [evalCell_evaluating ops wb fuel c s e hw hm] at ht ⊢
            have hin : c ∈ t.hits := ht.hits c (by simp)
            by_cases hmt : t.mark c = some .evaluated
            · simp only [hmt, if_true]; exact hG c hin hmt
            · simp only [hmt, if_false]
          | evaluated =>
            rw [evalCell_evaluated ops wb fuel c s e hw hm] at ht ⊢
            obtain ⟨m2, v2⟩ := ht.evald c hm
            simp only [m2, if_true]; exact v2
        | none =>
          rw [evalCell_none ops wb fuel c s e hw hm] at ht ⊢
          generalize (evalExpr ops (evalCell ops wb fuel) e (s.setMark c .evaluating)) = p at ht ⊢
          obtain ⟨m2, v2⟩ := ht.evald c (by simp [St.finish])
          simp only [m2, if_true]
          rw [v2]; simp [St.finish]

/-! ### top level: `evaluateFrom` / `evaluateAll` -/

/-- between top-level calls no cell is `Evaluating` -/
def NoEval (s : St N) : Prop := ∀ d, s.mark d ≠ some .evaluating

theorem NoEval.step {s t : St N} (h : Ext s t) (hn : NoEval s) : NoEval t :=
  fun d hd => hn d (h.back d hd)

theorem evalCell_evaluated_after (ops : NumOps N) (wb : Coord → Cell N) (fuel : Nat) (c : Coord)
    (s : St N) (e : Expr N) (hw : wb c = .formula e) (hn : NoEval s)
    (hc : (evalCell ops wb fuel c s).2.oof = false) :
    (evalCell ops wb fuel c s).2.mark c = some .evaluated := by
  cases fuel with
  | zero => rw [evalCell_zero] at hc; exact absurd hc (by simp)
  | succ fuel =>
    cases hm : s.mark c with
    | some m =>
      cases m with
      | evaluating => exact absurd hm (hn c)
      | evaluated => rw [evalCell_evaluated ops wb fuel c s e hw hm]; exact hm
    | none => rw [evalCell_none ops wb fuel c s e hw hm]; simp [St.finish]

theorem evaluateFrom_nil (ops : NumOps N) (wb : Coord → Cell N) (fuel : Nat) (s : St N) :
    evaluateFrom ops wb fuel [] s = s := rfl

theorem evaluateFrom_cons (ops : NumOps N) (wb : Coord → Cell N) (fuel : Nat) (c : Coord)
    (cs : List Coord) (s : St N) :
    evaluateFrom ops wb fuel (c :: cs) s = evaluateFrom ops wb fuel cs (evalCell ops wb fuel c s).2 :=
  rfl

theorem evaluateFrom_ext (ops : NumOps N) (wb : Coord → Cell N) (fuel : Nat) :
    ∀ order s, Ext s (evaluateFrom ops wb fuel order s) := by
  intro order
  induction order with
  | nil => intro s; exact Ext.refl s
  | cons c cs ih =>
    intro s
    rw [evaluateFrom_cons]
    exact (evalCell_ext ops wb fuel c s).trans (ih _)

theorem evaluateFrom_spec (ops : NumOps N) (wb : Coord → Cell N) (fuel : Nat) :
    ∀ order s, Good ops wb s → NoEval s → Cond wb (evaluateFrom ops wb fuel order s) →
      Good ops wb (evaluateFrom ops wb fuel order s) ∧
      (∀ c e, c ∈ order → wb c = .formula e →
        (evaluateFrom ops wb fuel order s).mark c = some .evaluated) := by
  intro order
  induction order with
  | nil => intro s hg _ _; exact ⟨hg, fun _ _ h => by cases h⟩
  | cons c cs ih =>
    intro s hg hn hc
    rw [evaluateFrom_cons] at hc ⊢
    have hext := evaluateFrom_ext ops wb fuel cs (evalCell ops wb fuel c s).2
    have hc1 : Cond wb (evalCell ops wb fuel c s).2 := Cond.back hext hc
    have hg1 := (evalCell_ok ops wb fuel).good c s hg hc1
    have hn1 : NoEval (evalCell ops wb fuel c s).2 := hn.step (evalCell_ext ops wb fuel c s)
    obtain ⟨g2, m2⟩ := ih _ hg1 hn1 hc
    refine ⟨g2, ?_⟩
    intro d e hd hw
    rcases List.mem_cons.mp hd with h1 | h1
    · subst h1
      have := evalCell_evaluated_after ops wb fuel d s e hw hn hc1.1
      exact (hext.evald d this).1
    · exact m2 d e h1 hw

/-- marks alone (no `Good` needed): every formula cell of `order` ends evaluated -/
theorem evaluateFrom_marks (ops : NumOps N) (wb : Coord → Cell N) (fuel : Nat) :
    ∀ order s, NoEval s → (evaluateFrom ops wb fuel order s).oof = false →
      ∀ c e, c ∈ order → wb c = .formula e →
        (evaluateFrom ops wb fuel order s).mark c = some .evaluated := by
  intro order
  induction order with
  | nil => intro s _ _ c e h; cases h
  | cons d ds ih =>
    intro s hn ho c e hc hw
    rw [evaluateFrom_cons] at ho ⊢
    have hext := evaluateFrom_ext ops wb fuel ds (evalCell ops wb fuel d s).2
    have hn1 : NoEval (evalCell ops wb fuel d s).2 := hn.step (evalCell_ext ops wb fuel d s)
    rcases List.mem_cons.mp hc with h1 | h1
    · subst h1
      have := evalCell_evaluated_after ops wb fuel c s e hw hn (hext.oof_false ho)
      exact (hext.evald c this).1
    · exact ih _ hn1 ho c e h1 hw

theorem good_fresh (ops : NumOps N) (wb : Coord → Cell N) (old : Coord → Val N) :
    Good ops wb (St.fresh old) ∧ NoEval (St.fresh old) := by
  refine ⟨⟨?_, ?_, ?_⟩, ?_⟩
  · intro d e _ hd; simp [St.fresh] at hd
  · intro x hx; simp [St.fresh] at hx
  · intro x hx; simp [St.fresh] at hx
  · intro d hd; simp [St.fresh] at hd

/-- every formula cell is consistent with the values shown by the cells it reads -/
def Consistent (ops : NumOps N) (wb : Coord → Cell N) (s : St N) : Prop :=
  ∀ c e, wb c = .formula e →
    s.mark c = some .evaluated ∧ s.val c = store ops (pureEval ops (lookup wb s) e)

/-- every formula cell is in the evaluation order (`get_all_cells` lists every stored cell) -/
def Covers (wb : Coord → Cell N) (order : List Coord) : Prop :=
  ∀ c e, wb c = .formula e → c ∈ order

theorem evaluateFrom_consistent (ops : NumOps N) (wb : Coord → Cell N) (fuel : Nat)
    (order : List Coord) (old : Coord → Val N) (hcov : Covers wb order)
    (hc : Cond wb (evaluateFrom ops wb fuel order (St.fresh old))) :
    Consistent ops wb (evaluateFrom ops wb fuel order (St.fresh old)) ∧
    G (evaluateFrom ops wb fuel order (St.fresh old)) := by
  obtain ⟨hg0, hn0⟩ := good_fresh ops wb old
  obtain ⟨hg, hm⟩ := evaluateFrom_spec ops wb fuel order _ hg0 hn0 hc
  generalize evaluateFrom ops wb fuel order (St.fresh old) = sF at hg hm
  refine ⟨?_, hg.g⟩
  have hl : lookupC wb sF = lookup wb sF := by
    funext c
    cases hw : wb c with
    | empty => simp only [lookupC, lookup, hw]
    | plain v => simp only [lookupC, lookup, hw]
    | formula e =>
      simp only [lookupC, lookup, hw, hm c e (hcov c e hw) hw, if_true]
  intro c e hw
  have hmc := hm c e (hcov c e hw) hw
  refine ⟨hmc, ?_⟩
  have := hg.inv c e hw hmc sF (Fut.refl sF) hg.g
  rw [hl] at this
  exact this

/-! ### the fuel `order.length + 1` suffices -/

theorem filter_length_mono {α : Type} (p q : α → Bool) (h : ∀ x, p x = true → q x = true) :
    ∀ l : List α, (l.filter p).length ≤ (l.filter q).length := by
  intro l
  induction l with
  | nil => simp
  | cons a l ih =>
    cases hp : p a with
    | true => simp only [List.filter_cons, hp, h a hp, if_true, List.length_cons]; omega
    | false =>
      cases hq : q a with
      | true => simp [hp, hq]; omega
      | false => simp [hp, hq]; exact ih

theorem filter_length_lt {α : Type} (p q : α → Bool) (h : ∀ x, p x = true → q x = true)
    (c : α) (hq : q c = true) (hp : p c = false) :
    ∀ l : List α, c ∈ l → (l.filter p).length < (l.filter q).length := by
  intro l
  induction l with
  | nil => intro hc; cases hc
  | cons a l ih =>
    intro hc
    rcases List.mem_cons.mp hc with h1 | h1
    · subst h1
      have := filter_length_mono p q h l
      simp [hp, hq]; omega
    · have := ih h1
      cases hpa : p a with
      | true => simp only [List.filter_cons, hpa, h a hpa, if_true, List.length_cons]; omega
      | false =>
        cases hqa : q a with
        | true => simp [hpa, hqa]; omega
        | false => simp [hpa, hqa]; exact this

/-- number of positions of `order` holding a formula cell that is still unmarked -/
def unm (wb : Coord → Cell N) (order : List Coord) (s : St N) : Nat :=
  (order.filter (fun d => isFormula (wb d) && (s.mark d).isNone)).length

theorem unm_le_length (wb : Coord → Cell N) (order : List Coord) (s : St N) :
    unm wb order s ≤ order.length := List.length_filter_le _ _

theorem unm_mono (wb : Coord → Cell N) (order : List Coord) {s t : St N} (h : Ext s t) :
    unm wb order t ≤ unm wb order s := by
  apply filter_length_mono
  intro x hx
  simp only [Bool.and_eq_true, Option.isNone_iff_eq_none] at hx ⊢
  refine ⟨hx.1, ?_⟩
  cases hs : s.mark x with
  | none => rfl
  | some m => exact absurd hx.2 (h.marked x (by rw [hs]; simp))

theorem evalExpr_inv {S : Type} (ops : NumOps N) (rd : Coord → S → Val N × S) (P : S → Prop)
    (hrd : ∀ c s, P s → P (rd c s).2) (e : Expr N) :
    ∀ s, P s → P (evalExpr ops rd e s).2 :=
  fun s => evalExpr_rel ops rd (fun a b => P a → P b) (fun _ h => h) (fun _ _ _ h1 h2 h => h2 (h1 h))
    hrd e s

theorem evalCell_fuel_ok (ops : NumOps N) (wb : Coord → Cell N) (order : List Coord)
    (hcov : Covers wb order) :
    ∀ fuel c s, unm wb order s < fuel → s.oof = false → (evalCell ops wb fuel c s).2.oof = false := by
  intro fuel
  induction fuel with
  | zero => intro c s h; omega
  | succ fuel ih =>
    intro c s hlt ho
    cases hw : wb c with
    | empty => rw [evalCell_empty ops wb fuel c s hw]; exact ho
    | plain v => rw [evalCell_plain ops wb fuel c s v hw]; exact ho
    | formula e =>
      cases hm : s.mark c with
      | some m =>
        cases m with
        | evaluating => rw [evalCell_evaluating ops wb fuel c s e hw hm]; exact ho
        | evaluated => rw [evalCell_evaluated ops wb fuel c s e hw hm]; exact ho
      | none =>
        rw [evalCell_none ops wb fuel c s e hw hm]
        have hdec : unm wb order (s.setMark c .evaluating) < unm wb order s := by
          apply filter_length_lt _ _ _ c
          · simp [isFormula, hw, hm]
          · simp [St.setMark]
          · exact hcov c e hw
          · intro x hx
            simp only [Bool.and_eq_true, Option.isNone_iff_eq_none, St.setMark] at hx ⊢
            refine ⟨hx.1, ?_⟩
            by_cases hxc : x = c
            · rw [hxc] at hx; simp at hx
            · simpa [hxc] using hx.2
        have hP := evalExpr_inv ops (evalCell ops wb fuel)
          (fun t => unm wb order t < fuel ∧ t.oof = false)
          (fun d t ht => ⟨Nat.lt_of_le_of_lt (unm_mono wb order (evalCell_ext ops wb fuel d t)) ht.1,
            ih d t ht.1 ht.2⟩) e (s.setMark c .evaluating)
          ⟨by omega, by simpa [St.setMark] using ho⟩
        simpa [St.finish] using hP.2

theorem evaluateFrom_fuel_ok (ops : NumOps N) (wb : Coord → Cell N) (order : List Coord)
    (hcov : Covers wb order) (fuel : Nat) (hf : order.length < fuel) :
    ∀ cs s, s.oof = false → (evaluateFrom ops wb fuel cs s).oof = false := by
  intro cs
  induction cs with
  | nil => intro s h; exact h
  | cons c cs ih =>
    intro s h
    rw [evaluateFrom_cons]
    apply ih
    exact evalCell_fuel_ok ops wb order hcov fuel c s
      (Nat.lt_of_le_of_lt (unm_le_length wb order s) hf) h

/-! ### two runs in lock-step (used by C07: the stored values of a previous evaluation are
     never read by the next one) -/

theorem sumLoop_sim2 {S T : Type} (ops : NumOps N) (rd1 : Coord → S → Val N × S)
    (rd2 : Coord → T → Val N × T) (R : S → T → Prop)
    (h : ∀ c s t, R s t → (rd1 c s).1 = (rd2 c t).1 ∧ R (rd1 c s).2 (rd2 c t).2) :
    ∀ cs acc s t, R s t → (sumLoop ops rd1 cs acc s).1 = (sumLoop ops rd2 cs acc t).1 ∧
      R (sumLoop ops rd1 cs acc s).2 (sumLoop ops rd2 cs acc t).2 := by
  intro cs
  induction cs with
  | nil => intro acc s t hst; exact ⟨rfl, hst⟩
  | cons c cs ih =>
    intro acc s t hst
    obtain ⟨hv, hr⟩ := h c s t hst
    simp only [sumLoop]
    rw [hv]
    cases (rd2 c t).1 with
    | num n => exact ih _ _ _ hr
    | err e => exact ⟨rfl, hr⟩
    | str x => exact ih _ _ _ hr
    | bool x => exact ih _ _ _ hr
    | empty => exact ih _ _ _ hr

theorem evalExpr_sim2 {S T : Type} (ops : NumOps N) (rd1 : Coord → S → Val N × S)
    (rd2 : Coord → T → Val N × T) (R : S → T → Prop)
    (h : ∀ c s t, R s t → (rd1 c s).1 = (rd2 c t).1 ∧ R (rd1 c s).2 (rd2 c t).2) :
    ∀ e s t, R s t → (evalExpr ops rd1 e s).1 = (evalExpr ops rd2 e t).1 ∧
      R (evalExpr ops rd1 e s).2 (evalExpr ops rd2 e t).2 := by
  intro e
  induction e with
  | lit v => intro s t hst; exact ⟨rfl, hst⟩
  | ref c => intro s t hst; exact h c s t hst
  | bin op l r ihl ihr =>
    intro s t hst
    obtain ⟨hv, hr⟩ := ihl s t hst
    simp only [evalExpr]
    rw [hv]
    cases toNum ops (evalExpr ops rd2 l t).1 with
    | error e => exact ⟨rfl, hr⟩
    | ok x =>
      obtain ⟨hv2, hr2⟩ := ihr _ _ hr
      simp only []
      rw [hv2]
      cases toNum ops (evalExpr ops rd2 r (evalExpr ops rd2 l t).2).1 with
      | error e => exact ⟨rfl, hr2⟩
      | ok y => exact ⟨rfl, hr2⟩
  | iff c a b ihc iha ihb =>
    intro s t hst
    obtain ⟨hv, hr⟩ := ihc s t hst
    simp only [evalExpr]
    rw [hv]
    cases toBool ops (evalExpr ops rd2 c t).1 with
    | error e => exact ⟨rfl, hr⟩
    | ok x =>
      cases x with
      | true => exact iha _ _ hr
      | false => exact ihb _ _ hr
  | iferror a b iha ihb =>
    intro s t hst
    obtain ⟨hv, hr⟩ := iha s t hst
    simp only [evalExpr]
    rw [hv]
    cases hx : (evalExpr ops rd2 a t).1 with
    | err e => exact ihb _ _ hr
    | num n => exact ⟨rfl, hr⟩
    | str x => exact ⟨rfl, hr⟩
    | bool x => exact ⟨rfl, hr⟩
    | empty => exact ⟨rfl, hr⟩
  | iserror a iha =>
    intro s t hst
    obtain ⟨hv, hr⟩ := iha s t hst
    simp only [evalExpr]
    rw [hv]
    cases (evalExpr ops rd2 a t).1 with
    | err e => exact ⟨rfl, hr⟩
    | num n => exact ⟨rfl, hr⟩
    | str x => exact ⟨rfl, hr⟩
    | bool x => exact ⟨rfl, hr⟩
    | empty => exact ⟨rfl, hr⟩
  | sum cs =>
    intro s t hst
    simp only [evalExpr]
    exact sumLoop_sim2 ops rd1 rd2 R h cs _ s t hst

/-- two evaluator states that differ only in the stored values of cells not yet evaluated -/
structure Sim (s t : St N) : Prop where
  mark : s.mark = t.mark
  hits : s.hits = t.hits
  oof : s.oof = t.oof
  val : ∀ c, s.mark c = some .evaluated → s.val c = t.val c

theorem evalCell_sim (ops : NumOps N) (wb : Coord → Cell N) :
    ∀ fuel c s t, Sim s t → (evalCell ops wb fuel c s).1 = (evalCell ops wb fuel c t).1 ∧
      Sim (evalCell ops wb fuel c s).2 (evalCell ops wb fuel c t).2 := by
  intro fuel
  induction fuel with
  | zero =>
    intro c s t h
    rw [evalCell_zero, evalCell_zero]
    exact ⟨rfl, ⟨h.mark, h.hits, rfl, h.val⟩⟩
  | succ fuel ih =>
    intro c s t h
    cases hw : wb c with
    | empty => rw [evalCell_empty ops wb fuel c s hw, evalCell_empty ops wb fuel c t hw]; exact ⟨rfl, h⟩
    | plain v =>
      rw [evalCell_plain ops wb fuel c s v hw, evalCell_plain ops wb fuel c t v hw]; exact ⟨rfl, h⟩
    | formula e =>
      have hmt : t.mark c = s.mark c := by rw [h.mark]
      cases hm : s.mark c with
      | some m =>
        cases m with
        | evaluating =>
          rw [evalCell_evaluating ops wb fuel c s e hw hm,
            evalCell_evaluating ops wb fuel c t e hw (hmt.trans hm)]
          exact ⟨rfl, ⟨h.mark, by simp [h.hits], h.oof, h.val⟩⟩
        | evaluated =>
          rw [evalCell_evaluated ops wb fuel c s e hw hm,
            evalCell_evaluated ops wb fuel c t e hw (hmt.trans hm)]
          exact ⟨h.val c hm, h⟩
      | none =>
        rw [evalCell_none ops wb fuel c s e hw hm, evalCell_none ops wb fuel c t e hw (hmt.trans hm)]
        have h1 : Sim (s.setMark c .evaluating) (t.setMark c .evaluating) := by
          refine ⟨by simp [St.setMark, h.mark], h.hits, h.oof, ?_⟩
          intro d hd
          have hdc : d ≠ c := by intro hh; rw [hh] at hd; simp [St.setMark] at hd
          have : s.mark d = some .evaluated := by simpa [St.setMark, hdc] using hd
          simpa [St.setMark] using h.val d this
        obtain ⟨hv, hr⟩ := evalExpr_sim2 ops (evalCell ops wb fuel) (evalCell ops wb fuel) Sim ih e _ _ h1
        refine ⟨by rw [hv], ?_⟩
        rw [hv]
        refine ⟨by simp [St.finish, hr.mark], by simpa [St.finish] using hr.hits,
          by simpa [St.finish] using hr.oof, ?_⟩
        intro d hd
        by_cases hdc : d = c
        · simp [St.finish, hdc]
        · have : (evalExpr ops (evalCell ops wb fuel) e (s.setMark c .evaluating)).2.mark d
              = some .evaluated := by simpa [St.finish, hdc] using hd
          simpa [St.finish, hdc] using hr.val d this

theorem evaluateFrom_sim (ops : NumOps N) (wb : Coord → Cell N) (fuel : Nat) :
    ∀ order s t, Sim s t → Sim (evaluateFrom ops wb fuel order s) (evaluateFrom ops wb fuel order t) := by
  intro order
  induction order with
  | nil => intro s t h; exact h
  | cons c cs ih =>
    intro s t h
    rw [evaluateFrom_cons, evaluateFrom_cons]
    exact ih _ _ (evalCell_sim ops wb fuel c s t h).2

end IronCalc.Memo
