import IronCalc.Eval.Store
/-
  Helper lemmas for C08 (Props/C08.lean): the store invariant `AllFinite` is preserved by every
  primitive write, and every value the repaired store writes is finite.
-/
namespace IronCalc.Store

variable {N : Type} (S : NumSpec N)

theorem allFinite_nil : AllFinite S ([] : Grid N) := by
  intro p hp; cases hp

theorem allFinite_set {g : Grid N} {k : Coord} {c : Cell N}
    (hg : AllFinite S g) (hc : cellFinite S c = true) : AllFinite S (g.set k c) := by
  intro p hp
  unfold Grid.set at hp
  cases hp with
  | head => exact hc
  | tail _ h =>
    have := List.mem_filter.mp h
    exact hg p this.1

theorem allFinite_iff_allFiniteB (g : Grid N) : AllFinite S g ↔ allFiniteB S g = true := by
  unfold AllFinite allFiniteB
  simp [List.all_eq_true]

theorem updateCell_finite (o : Out N) (k : Coord) (c : Cell N)
    (hg : AllFinite S o.grid) (hc : cellFinite S c = true) : AllFinite S (updateCell o k c).grid := by
  unfold updateCell
  split
  · exact hg
  · split
    · exact hg
    · exact allFinite_set S hg hc

theorem replaceCell_finite (o : Out N) (k : Coord) (c : Cell N)
    (hg : AllFinite S o.grid) (hc : cellFinite S c = true) : AllFinite S (replaceCell o k c).grid := by
  unfold replaceCell
  split
  · exact hg
  · split
    · exact hg
    · exact allFinite_set S hg hc

/-- an invariant of every step of a fold is an invariant of the fold -/
theorem foldl_inv {α β : Type} (P : α → Prop) (f : α → β → α) (hf : ∀ a b, P a → P (f a b)) :
    ∀ (l : List β) (a : α), P a → P (l.foldl f a) := by
  intro l
  induction l with
  | nil => intro a h; exact h
  | cons b t ih => intro a h; exact ih (f a b) (hf a b h)

/-- with the guard on, an array element never becomes a non-finite formula value -/
theorem nodeToFormulaValue_finite (nd : ArrayNode N) :
    (match nodeToFormulaValue S true nd with | .number n => S.finite n | _ => true) = true := by
  cases nd with
  | number n =>
    unfold nodeToFormulaValue
    cases h : S.finite n <;> simp [h]
  | empty => simp [nodeToFormulaValue, S.zero_finite]
  | _ => simp [nodeToFormulaValue]

theorem nodeToSpillValue_finite (nd : ArrayNode N) :
    (match nodeToSpillValue S true nd with | .number n => S.finite n | _ => true) = true := by
  cases nd with
  | number n =>
    unfold nodeToSpillValue
    cases h : S.finite n <;> simp [h]
  | empty => simp [nodeToSpillValue, S.zero_finite]
  | _ => simp [nodeToSpillValue]

theorem cellFinite_arrayFormula_node (w h : Nat) (kind : ArrayKind) (nd : ArrayNode N) :
    cellFinite S (.arrayFormula w h kind (nodeToFormulaValue S true nd)) = true := by
  have := nodeToFormulaValue_finite S nd
  revert this
  cases nodeToFormulaValue S true nd <;> simp [cellFinite]

theorem cellFinite_cellFormula_node (nd : ArrayNode N) :
    cellFinite S (.cellFormula (nodeToFormulaValue S true nd)) = true := by
  have := nodeToFormulaValue_finite S nd
  revert this
  cases nodeToFormulaValue S true nd <;> simp [cellFinite]

theorem cellFinite_spill_node (a : Coord) (nd : ArrayNode N) :
    cellFinite S (.spillCell a (nodeToSpillValue S true nd)) = true := by
  have := nodeToSpillValue_finite S nd
  revert this
  cases nodeToSpillValue S true nd <;> simp [cellFinite]

/-- "this formula value holds no non-finite number" -/
def fvFinite : FormulaValue N → Bool
  | .number n => S.finite n
  | _ => true

theorem scalarFormulaValue_finite (r : CalcResult N) (fv : FormulaValue N)
    (h : scalarFormulaValue S r = some fv) : fvFinite S fv = true := by
  cases r with
  | number n =>
    unfold scalarFormulaValue at h
    cases hf : S.finite n
    · simp [hf] at h; subst h; rfl
    · simp [hf] at h; subst h; simpa [fvFinite] using hf
  | emptyCell => simp [scalarFormulaValue] at h; subst h; simpa [fvFinite] using S.zero_finite
  | emptyArg => simp [scalarFormulaValue] at h; subst h; simpa [fvFinite] using S.zero_finite
  | string s => simp [scalarFormulaValue] at h; subst h; rfl
  | boolean b => simp [scalarFormulaValue] at h; subst h; rfl
  | error e => simp [scalarFormulaValue] at h; subst h; rfl
  | range => simp [scalarFormulaValue] at h
  | array a => simp [scalarFormulaValue] at h
  | lambda => simp [scalarFormulaValue] at h

theorem storeFormulaValue_finite (g : Grid N) (row col : Nat) (cell : Cell N) (fv : FormulaValue N)
    (hg : AllFinite S g) (hfv : fvFinite S fv = true) :
    AllFinite S (storeFormulaValue g row col cell fv).grid := by
  have hanchor : ∀ w h kind, cellFinite S (.arrayFormula w h kind fv) = true := by
    intro w h kind; cases fv <;> simp_all [cellFinite, fvFinite]
  have hcf : cellFinite S (.cellFormula fv) = true := by
    cases fv <;> simp_all [cellFinite, fvFinite]
  have hsp : ∀ a, cellFinite S (.spillCell a (formulaValueToSpillValue fv)) = true := by
    intro a; cases fv <;> simp_all [cellFinite, fvFinite, formulaValueToSpillValue]
  unfold storeFormulaValue
  split
  · apply updateCell_finite S _ _ _ _ (hanchor _ _ _)
    apply foldl_inv (fun o : Out N => AllFinite S o.grid)
    · intro o k ho
      split
      · exact ho
      · exact updateCell_finite S o k _ ho (hsp _)
    · exact hg
  · exact updateCell_finite S _ _ _ hg (hanchor _ _ _)
  · exact updateCell_finite S _ _ _ hg hcf

theorem storeArrayDynamic_finite (g : Grid N) (row col : Nat) (cell : Cell N)
    (a : List (List (ArrayNode N))) (width height : Nat) (hg : AllFinite S g) :
    AllFinite S (storeArrayDynamic S true g row col cell a width height).grid := by
  unfold storeArrayDynamic
  split
  · exact storeFormulaValue_finite S g row col cell _ hg rfl
  · split
    · exact storeFormulaValue_finite S g row col cell _ hg rfl
    · apply foldl_inv (fun o : Out N => AllFinite S o.grid)
      · intro o k ho
        split
        · exact updateCell_finite S o k _ ho (cellFinite_arrayFormula_node S _ _ _ _)
        · exact updateCell_finite S o k _ ho (cellFinite_spill_node S _ _)
      · exact hg

theorem storeArrayCse_finite (g : Grid N) (row col : Nat)
    (a : List (List (ArrayNode N))) (w h : Nat) (hg : AllFinite S g) :
    AllFinite S (storeArrayCse S true g row col a w h).grid := by
  unfold storeArrayCse
  apply foldl_inv (fun o : Out N => AllFinite S o.grid)
  · intro o k ho
    split
    · apply replaceCell_finite S o k _ ho
      split
      · exact cellFinite_arrayFormula_node S _ _ _ _
      · rfl
    · apply replaceCell_finite S o k _ ho
      split
      · exact cellFinite_spill_node S _ _
      · rfl
  · exact hg

theorem storeArrayScalar_finite (g : Grid N) (row col : Nat)
    (a : List (List (ArrayNode N))) (width height : Nat) (hg : AllFinite S g) :
    AllFinite S (storeArrayScalar S true g row col a width height).grid := by
  unfold storeArrayScalar
  apply replaceCell_finite S _ _ _ hg
  split
  · split
    · exact cellFinite_cellFormula_node S _
    · rfl
  · rfl

theorem storeArray_finite (g : Grid N) (row col : Nat) (cell : Cell N)
    (a : List (List (ArrayNode N))) (hg : AllFinite S g) :
    AllFinite S (storeArray S true g row col cell a).grid := by
  unfold storeArray
  split
  · dsimp only
    split
    · exact storeFormulaValue_finite S g row col _ _ hg rfl
    · exact storeArrayDynamic_finite S g row col _ a _ _ hg
  · dsimp only
    split
    · exact storeFormulaValue_finite S g row col _ _ hg rfl
    · exact storeArrayCse_finite S g row col a _ _ hg
  · dsimp only
    split
    · exact storeFormulaValue_finite S g row col _ _ hg rfl
    · exact storeArrayScalar_finite S g row col a _ _ hg

end IronCalc.Store
