/-
  M-Eval / Phase1 — the scheduler of `Model::evaluate` (base/src/model.rs), phase 1: the order
  vector `spill_cells`, one pass over it, the reorder (`remove(i)` / `insert(j, …)`), the restart
  counter and its bound `n*n+1`.

  Everything the scheduler asks about the sheet is ONE question: "does something that was
  evaluated on behalf of the anchor at position j (the anchor itself or a cell it read, directly
  or through other cells) depend on a position written by the anchor at position i?"
  (`evaluated_under[j].any(|c| position_in_support(c, spill_area(i)))`).  Here it is an oracle
  `dep : A → A → Bool` (`dep a b` = a reads what b writes, so b has to come first); the loop
  takes one oracle per pass (`Nat → A → A → Bool`, indexed by the number of restarts so far)
  because supports and spill areas are those of the current sheet; the theorems are about a
  fixed oracle.  No Mathlib.
-/
namespace IronCalc.Phase1

variable {A : Type}

/-- the inner `for j in 0..i`: position of the first anchor before position i that reads what
    `x` (the anchor at position i) writes -/
def firstConflict (dep : A → A → Bool) (pre : List A) (x : A) : Option Nat :=
  match pre with
  | [] => none
  | a :: rest => if dep a x then some 0 else (firstConflict dep rest x).map (· + 1)

/-- models one pass of the `for i in 0..self.spill_cells.len()` loop: `pre` are the anchors
    already evaluated in this pass (in order), `rest` those still to come.  `none`: the pass
    completed; `some order'`: the anchor at the first position i that has a conflict was moved
    in front of the first position j it conflicts with (`remove(i)`, `insert(j, moved)`). -/
def scan (dep : A → A → Bool) : List A → List A → Option (List A)
  | _, [] => none
  | pre, x :: rest =>
    match firstConflict dep pre x with
    | some j => some (pre.take j ++ x :: pre.drop j ++ rest)
    | none => scan dep (pre ++ [x]) rest

def pass (dep : A → A → Bool) (order : List A) : Option (List A) := scan dep [] order

/-- models the `while retry && restart_count < max_restarts` loop; `fuel` = `max_restarts -
    restart_count`.  Result: (final order, restart_count, retry) — `retry = true` means the
    bound was reached. -/
def run (dep : Nat → A → A → Bool) : Nat → Nat → List A → List A × Nat × Bool
  | 0, count, order => (order, count, true)
  | fuel + 1, count, order =>
    match pass (dep count) order with
    | none => (order, count, false)
    | some order' => run dep fuel (count + 1) order'

/-- models phase 1 of `Model::evaluate` from the natural order: `max_restarts = n*n+1` -/
def phase1 (dep : Nat → A → A → Bool) (order : List A) : List A × Nat × Bool :=
  run dep (order.length * order.length + 1) 0 order

/-- an order in which nobody reads what a LATER anchor writes -/
def Sound (dep : A → A → Bool) (order : List A) : Prop :=
  order.Pairwise (fun a b => dep a b = false)

/-! ### values: what a pass computes -/

/-- evaluating the anchors of `order` one after the other: each anchor's value is a function of
    the values the sheet holds at that moment -/
def evalPass {V : Type} [DecidableEq A] (F : A → (A → V) → V) (order : List A) (σ : A → V) : A → V :=
  order.foldl (fun σ a => fun b => if b = a then F a σ else σ b) σ

/-- `F a` only looks at the anchors `a` reads -/
def Respects {V : Type} (dep : A → A → Bool) (F : A → (A → V) → V) : Prop :=
  ∀ a σ σ', (∀ b, dep a b = true → σ b = σ' b) → F a σ = F a σ'

/-- the digits of an order under a rank function, read as a number in base `B` -/
def enc (r : A → Nat) (B : Nat) (order : List A) : Nat :=
  order.foldl (fun acc a => acc * B + r a) 0

end IronCalc.Phase1
